module kmipverif

go 1.26.8

require github.com/ovh/kmip-go v0.0.0

replace github.com/ovh/kmip-go => /repo
