// Command check is the driver: instrument /repo's working tree, build the
// harness against the overlay, fan simulated runs out over worker processes,
// merge, classify against KNOWN_FINDINGS.txt, confirm replays in fresh
// processes, write evidence, and exit 0 / 1 (VIOLATION) / 2 (trouble).
package main

import (
	"bufio"
	"encoding/json"
	"errors"
	"fmt"
	"os"
	"os/exec"
	"path/filepath"
	"sort"
	"strconv"
	"strings"
	"sync"
	"time"
)

const goBin = "go1.26.8"

// repoDir is always /repo for the registered checks; VERIF_REPO lets the author point the driver at a
// scratch worktree (seeded-change experiments) without touching /repo.
var repoDir = func() string {
	if v := os.Getenv("VERIF_REPO"); v != "" {
		return v
	}
	return "/repo"
}()

// verifDir is the tree the driver works in: the current directory when it looks like a /verif
// checkout (background runs from a snapshot), else /verif.
var verifDir, simDir = func() (string, string) {
	if wd, err := os.Getwd(); err == nil {
		if _, err := os.Stat(filepath.Join(wd, "sim", "go.mod")); err == nil {
			return wd, filepath.Join(wd, "sim")
		}
	}
	return "/verif", "/verif/sim"
}()

func trouble(format string, a ...any) {
	fmt.Fprintf(os.Stderr, "check: TROUBLE: "+format+"\n", a...)
	os.Exit(2)
}

func goEnv() []string {
	env := os.Environ()
	env = append(env, "GOFLAGS=-mod=mod", "GOPROXY=off", "GOSUMDB=off", "GOTOOLCHAIN=local", "GOCACHE=/verif/.gocache")
	return env
}

func scratchBase() string {
	if v := os.Getenv("VERIF_SCRATCH"); v != "" {
		return v
	}
	for _, d := range []string{"/dev/shm", "/var/tmp"} {
		if st, err := os.Stat(d); err == nil && st.IsDir() {
			f, err := os.CreateTemp(d, "kmipverif-probe")
			if err == nil {
				f.Close()
				os.Remove(f.Name())
				return d
			}
		}
	}
	return "/var/tmp"
}

func run(dir string, env []string, name string, args ...string) (string, error) {
	cmd := exec.Command(name, args...)
	cmd.Dir = dir
	cmd.Env = env
	out, err := cmd.CombinedOutput()
	return string(out), err
}

// build instruments the current /repo tree and builds the harness test binary.
var modArgs []string

func build(scratch, mutate string) (bin string) {
	env := goEnv()
	instr := filepath.Join(scratch, "instrument")
	if out, err := run(simDir, env, goBin, "build", "-o", instr, "./instrument"); err != nil {
		trouble("building the rewriter failed:\n%s", out)
	}
	ov := filepath.Join(scratch, "ov")
	args := []string{}
	if mutate != "" {
		args = append(args, "-mutate", mutate)
	}
	args = append(args, repoDir, ov)
	if out, err := run(simDir, env, instr, args...); err != nil {
		trouble("instrumenting %s failed:\n%s", repoDir, out)
	}
	// go.sum of the harness module must cover the repo's dependencies
	if b, err := os.ReadFile(filepath.Join(repoDir, "go.sum")); err == nil && repoDir == "/repo" {
		cur, _ := os.ReadFile(filepath.Join(simDir, "go.sum"))
		if string(cur) != string(b) {
			_ = os.WriteFile(filepath.Join(simDir, "go.sum"), b, 0o644)
		}
	}
	bin = filepath.Join(scratch, "harness.test")
	modArgs = nil
	if repoDir != "/repo" {
		gm, _ := os.ReadFile(filepath.Join(simDir, "go.mod"))
		mf := filepath.Join(scratch, "go.mod")
		_ = os.WriteFile(mf, []byte(strings.Replace(string(gm), "=> /repo", "=> "+repoDir, 1)), 0o644)
		gs, _ := os.ReadFile(filepath.Join(repoDir, "go.sum"))
		_ = os.WriteFile(filepath.Join(scratch, "go.sum"), gs, 0o644)
		modArgs = []string{"-modfile=" + mf}
	}
	a := append([]string{"test", "-c", "-vet=off"}, modArgs...)
	a = append(a, "-overlay", filepath.Join(ov, "overlay.json"), "-o", bin, "./harness")
	if out, err := run(simDir, env, goBin, a...); err != nil {
		trouble("building the harness against the instrumented tree failed (does /repo compile?):\n%s", out)
	}
	return bin
}

type workerSpec struct {
	Property    string  `json:"property"`
	Tier        string  `json:"tier"`
	Seed        uint64  `json:"seed"`
	Worker      int     `json:"worker"`
	NWorkers    int     `json:"nworkers"`
	Mode        string  `json:"mode"`
	ReplayFile  string  `json:"replay_file,omitempty"`
	Out         string  `json:"out"`
	Explore     int     `json:"explore"`
	DeadlineS   float64 `json:"deadline_s"`
	ReplayDir   string  `json:"replay_dir"`
	MaxFindings int     `json:"max_findings"`
	MinBudget   int     `json:"min_budget"`
	NoFloors    bool    `json:"no_floors,omitempty"`
	DumpRuns    int     `json:"dump_runs,omitempty"`
}

type finding struct {
	Key        string `json:"key"`
	Rule       string `json:"rule"`
	Sig        string `json:"sig"`
	Detail     string `json:"detail"`
	ReplayPath string `json:"replay_path"`
	Count      int    `json:"count"`
	FirstRun   string `json:"first_run"`
	Size       int    `json:"size"`
	MinFailed  string `json:"min_failed,omitempty"`
}

type sample struct {
	Run      string          `json:"run"`
	Scenario json.RawMessage `json:"scenario"`
	Events   []string        `json:"events"`
}

type replayResult struct {
	Reproduced bool     `json:"reproduced"`
	SameHash   bool     `json:"same_hash"`
	Got        []string `json:"got"`
	Hash       string   `json:"hash"`
}

type workerResult struct {
	Property       string         `json:"property"`
	Worker         int            `json:"worker"`
	ExploreRuns    int            `json:"explore_runs"`
	FloorRuns      map[string]int `json:"floor_runs"`
	SweepRuns      int            `json:"sweep_runs"`
	FloorsDone     bool           `json:"floors_done"`
	ExploreDone    bool           `json:"explore_done"`
	Capped         int            `json:"capped"`
	ForeignRuns    int            `json:"foreign_runs"`
	ForeignEx      []string       `json:"foreign_examples"`
	Nontrivial     int            `json:"nontrivial"`
	Hashes         []uint64       `json:"hashes"`
	Pairs          []uint64       `json:"pairs"`
	Faults         map[string]int `json:"faults"`
	Probes         map[string]int `json:"probes"`
	SimSeconds     float64        `json:"sim_seconds"`
	Yields         int64          `json:"yields"`
	MaxYields      int64          `json:"max_yields"`
	MaxSteps       int            `json:"max_steps"`
	MaxTasks       int            `json:"max_tasks"`
	Steps          int64          `json:"steps"`
	Findings       []*finding     `json:"findings"`
	Samples        []sample       `json:"samples"`
	WallS          float64        `json:"wall_s"`
	Replay         *replayResult  `json:"replay"`
	MemAbort       string         `json:"mem_abort"`
	Unreproducible map[string]int `json:"unreproducible"`
}

func runWorker(bin string, spec workerSpec, scratch string, timeout time.Duration) (*workerResult, error) {
	return runWorkerGMP(bin, spec, scratch, timeout, 2)
}

func runWorkerGMP(bin string, spec workerSpec, scratch string, timeout time.Duration, gmp int) (*workerResult, error) {
	specPath := filepath.Join(scratch, fmt.Sprintf("spec-%s-%s-%d.json", spec.Property, spec.Mode, spec.Worker))
	spec.Out = filepath.Join(scratch, fmt.Sprintf("out-%s-%s-%d.json", spec.Property, spec.Mode, spec.Worker))
	b, _ := json.Marshal(spec)
	if err := os.WriteFile(specPath, b, 0o644); err != nil {
		return nil, err
	}
	os.Remove(spec.Out)
	// every worker runs under a hard address-space limit: library code that allocates what an attacker announces
	// dies of a Go "out of memory" fatal error in its own process (reported as <id>.process-killed) instead of
	// taking the machine down with it (sixteen workers share the RAM; the sandbox has no memory limit of its own)
	vmemKB := "3145728"
	if v := os.Getenv("KMIPVERIF_WORKER_VMEM_KB"); v != "" {
		vmemKB = v
	}
	cmd := exec.Command("sh", "-c", "ulimit -v "+vmemKB+" 2>/dev/null; exec \"$0\" \"$@\"", bin, "-test.run", "^TestWorker$", "-test.timeout", "0")
	crumb := filepath.Join(scratch, fmt.Sprintf("crumb-%s-%s-%d.json", spec.Property, spec.Mode, spec.Worker))
	os.Remove(crumb)
	cmd.Env = append(os.Environ(), "KMIPVERIF_SPEC="+specPath, fmt.Sprintf("GOMAXPROCS=%d", gmp), "GOMEMLIMIT=3GiB", "KMIPVERIF_CRUMB="+crumb)
	logPath := filepath.Join(scratch, fmt.Sprintf("log-%s-%s-%d.txt", spec.Property, spec.Mode, spec.Worker))
	lf, _ := os.Create(logPath)
	cmd.Stdout, cmd.Stderr = lf, lf
	if err := cmd.Start(); err != nil {
		return nil, err
	}
	done := make(chan error, 1)
	go func() { done <- cmd.Wait() }()
	select {
	case err := <-done:
		lf.Close()
		if err != nil {
			lg, _ := os.ReadFile(logPath)
			if class, frame := fatalClass(string(lg)); class != "" {
				return nil, &workerDeath{worker: spec.Worker, class: class, frame: frame, crumb: crumb, err: err}
			}
			return nil, fmt.Errorf("worker %d failed: %v\n%s", spec.Worker, err, tail(string(lg), 60))
		}
	case <-time.After(timeout):
		_ = cmd.Process.Kill()
		lf.Close()
		return nil, fmt.Errorf("worker %d: watchdog timeout after %v", spec.Worker, timeout)
	}
	raw, err := os.ReadFile(spec.Out)
	if err != nil {
		return nil, err
	}
	var res workerResult
	if err := json.Unmarshal(raw, &res); err != nil {
		return nil, err
	}
	return &res, nil
}

// workerDeath: the worker process was killed by a Go fatal error (not a panic, which the simulator recovers and
// reports) raised while library code was running.
type workerDeath struct {
	worker int
	class  string // out-of-memory | stack-overflow
	frame  string // innermost kmip-go frame of the dying goroutine
	crumb  string // file holding the input of the run that was executing
	err    error
}

func (d *workerDeath) Error() string {
	return fmt.Sprintf("worker %d killed by a fatal error (%s) in %s: %v", d.worker, d.class, d.frame, d.err)
}

// fatalClass recognises the two fatal errors that library code can cause and that no recover() catches, and returns
// the innermost github.com/ovh/kmip-go frame of the goroutine that died. Anything else is not classified.
func fatalClass(log string) (class, frame string) {
	switch {
	case strings.Contains(log, "fatal error: runtime: out of memory") || strings.Contains(log, "fatal error: out of memory"):
		class = "out-of-memory"
	case strings.Contains(log, "fatal error: stack overflow") || strings.Contains(log, "goroutine stack exceeds"):
		class = "stack-overflow"
	default:
		return "", ""
	}
	// the dying goroutine is the first one listed as running
	i := strings.Index(log, "[running")
	if i < 0 {
		return "", ""
	}
	sect := log[i:]
	if j := strings.Index(sect, "\n\ngoroutine "); j > 0 {
		sect = sect[:j]
	}
	for _, ln := range strings.Split(sect, "\n") {
		if strings.HasPrefix(ln, "github.com/ovh/kmip-go") {
			f := ln
			if k := strings.IndexByte(f, '('); k > 0 && !strings.HasPrefix(f[k:], "(*") {
				f = f[:k]
			}
			if k := strings.LastIndex(f, "("); k > 0 && strings.HasSuffix(strings.TrimSpace(f), ")") && !strings.Contains(f[k:], "*") {
				f = f[:k]
			}
			return class, strings.TrimPrefix(strings.TrimSpace(f), "github.com/ovh/kmip-go/")
		}
	}
	return "", "" // no library frame on the dying goroutine: not the library's doing as far as we can tell
}

func tail(s string, n int) string {
	lines := strings.Split(s, "\n")
	if len(lines) > n {
		lines = lines[len(lines)-n:]
	}
	return strings.Join(lines, "\n")
}

// ---- known findings

type knownLine struct {
	kind     string // known | fixed
	property string
	rule     string
	sig      string
	text     string
}

func loadKnown() []knownLine {
	f, err := os.Open(filepath.Join(verifDir, "KNOWN_FINDINGS.txt"))
	if err != nil {
		return nil
	}
	defer f.Close()
	var out []knownLine
	sc := bufio.NewScanner(f)
	sc.Buffer(make([]byte, 1<<20), 1<<20)
	for sc.Scan() {
		ln := strings.TrimSpace(sc.Text())
		if ln == "" || strings.HasPrefix(ln, "#") {
			continue
		}
		var k knownLine
		switch {
		case strings.HasPrefix(ln, "known:"):
			k.kind = "known"
			ln = strings.TrimSpace(strings.TrimPrefix(ln, "known:"))
		case strings.HasPrefix(ln, "fixed:"):
			k.kind = "fixed"
			out = append(out, k)
			continue
		default:
			continue
		}
		head, text, _ := strings.Cut(ln, "::")
		k.text = strings.TrimSpace(text)
		// property=.. rule=.. sig=<rest of head>
		if i := strings.Index(head, " sig="); i >= 0 {
			k.sig = strings.TrimSpace(head[i+5:])
			head = head[:i]
		}
		for _, f := range strings.Fields(head) {
			if v, ok := strings.CutPrefix(f, "property="); ok {
				k.property = v
			}
			if v, ok := strings.CutPrefix(f, "rule="); ok {
				k.rule = v
			}
		}
		out = append(out, k)
	}
	return out
}

func matchKnown(known []knownLine, prop, rule, sig string) *knownLine {
	for i := range known {
		k := &known[i]
		if k.kind != "known" || k.property != prop || k.rule != rule {
			continue
		}
		if k.sig == sig {
			return k
		}
		if p, ok := strings.CutSuffix(k.sig, "*"); ok && strings.HasPrefix(sig, p) {
			return k
		}
	}
	return nil
}

// ---- evidence

type evidence struct {
	PropertyID  string         `json:"property_id"`
	Tier        string         `json:"tier"`
	Seed        uint64         `json:"seed"`
	Level       string         `json:"level"`
	WallS       float64        `json:"wall_s"`
	Violations  int            `json:"violations"`
	Coverage    map[string]any `json:"coverage"`
	Assumptions []string       `json:"assumptions"`
}

type propMeta struct {
	Rule        string              `json:"rule"`
	Components  map[string][]string `json:"components"`
	Assumptions []string            `json:"assumptions"`
	Level       string              `json:"level"`
	Floors      map[string]int      `json:"floors"`
	Runs        int                 `json:"runs"`
	Sweeps      map[string]bool     `json:"sweeps"`
}

func getMeta(bin, prop, tier, scratch string) propMeta {
	out := filepath.Join(scratch, "meta-"+prop+".json")
	cmd := exec.Command(bin, "-test.run", "^TestMeta$")
	cmd.Env = append(os.Environ(), "KMIPVERIF_META="+prop, "KMIPVERIF_META_TIER="+tier, "KMIPVERIF_META_OUT="+out)
	if b, err := cmd.CombinedOutput(); err != nil {
		trouble("meta query failed: %v\n%s", err, b)
	}
	raw, err := os.ReadFile(out)
	if err != nil {
		trouble("meta: %v", err)
	}
	var m propMeta
	if err := json.Unmarshal(raw, &m); err != nil {
		trouble("meta: %v", err)
	}
	return m
}

func envSeed() uint64 {
	if v := os.Getenv("VERIF_SEED"); v != "" {
		if n, err := strconv.ParseUint(v, 10, 64); err == nil {
			return n
		}
		if n, err := strconv.ParseInt(v, 10, 64); err == nil {
			return uint64(n)
		}
	}
	return 1
}

func nWorkers() int {
	if v := os.Getenv("VERIF_WORKERS"); v != "" {
		if n, err := strconv.Atoi(v); err == nil && n > 0 {
			return n
		}
	}
	return 16
}

func cmdRun(args []string) int {
	if len(args) < 1 {
		trouble("usage: check run <property> [--tier quick|thorough] [--runs N] [--mutate name]")
	}
	prop := args[0]
	tier := os.Getenv("VERIF_TIER")
	runs := -1
	mutate := ""
	keep := false
	for i := 1; i < len(args); i++ {
		switch args[i] {
		case "--tier":
			i++
			tier = args[i]
		case "--runs":
			i++
			runs, _ = strconv.Atoi(args[i])
		case "--mutate":
			i++
			mutate = args[i]
		case "--keep":
			keep = true
		}
	}
	if tier != "thorough" {
		tier = "quick"
	}
	start := time.Now()
	seed := envSeed()
	fmt.Printf("check: property=%s tier=%s VERIF_SEED=%d\n", prop, tier, seed)
	scratch, err := os.MkdirTemp(scratchBase(), "kmipverif-")
	if err != nil {
		trouble("scratch: %v", err)
	}
	if !keep {
		defer os.RemoveAll(scratch)
	}
	code := runProperty(prop, tier, seed, runs, mutate, scratch, start, mutate == "")
	return code
}

// runPropertyQuiet runs the quick tier with a mutation applied and returns the exit code and the rules that fired.
func runPropertyQuiet(prop, mutate, scratch string, start time.Time) (int, []string) {
	old := os.Stdout
	r, w, _ := os.Pipe()
	os.Stdout = w
	done := make(chan string)
	go func() {
		var sb strings.Builder
		buf := make([]byte, 65536)
		for {
			n, err := r.Read(buf)
			sb.Write(buf[:n])
			if err != nil {
				break
			}
		}
		done <- sb.String()
	}()
	code := runProperty(prop, "quick", envSeed(), -1, mutate, scratch, start, false)
	w.Close()
	os.Stdout = old
	out := <-done
	seen := map[string]bool{}
	var rules []string
	for _, ln := range strings.Split(out, "\n") {
		ln = strings.TrimSpace(ln)
		if v, ok := strings.CutPrefix(ln, "rule="); ok {
			f := strings.Fields(v)
			if len(f) > 0 && !seen[f[0]] {
				seen[f[0]] = true
				rules = append(rules, f[0])
			}
		}
	}
	return code, rules
}

func runProperty(prop, tier string, seed uint64, runs int, mutate, scratch string, start time.Time, writeEvidence bool) int {
	bin := build(scratch, mutate)
	if prop == "C20" {
		codecReference(bin, scratch)
	}
	meta := getMeta(bin, prop, tier, scratch)
	buildS := time.Since(start).Seconds()

	replayDir := filepath.Join(verifDir, "replays", prop)
	if repoDir != "/repo" {
		writeEvidence = false
		replayDir = filepath.Join(scratchBase(), "kmipverif-experiments", filepath.Base(repoDir), prop)
		os.RemoveAll(replayDir)
	} else if mutate != "" {
		replayDir = filepath.Join(scratch, "replays")
	} else {
		// stale replay files of earlier runs of this property are removed; seeded/ and committed ones live elsewhere
		os.RemoveAll(replayDir)
	}
	nw := nWorkers()
	deadline := 240.0
	wd := 8 * time.Minute
	if tier == "thorough" {
		deadline = 40 * 60
		wd = 60 * time.Minute
	}
	if v := os.Getenv("VERIF_DEADLINE_S"); v != "" {
		if f, err := strconv.ParseFloat(v, 64); err == nil {
			deadline = f
			wd = time.Duration(f*2)*time.Second + 5*time.Minute
		}
	}
	results := make([]*workerResult, nw)
	errs := make([]error, nw)
	var wg sync.WaitGroup
	for w := 0; w < nw; w++ {
		wg.Add(1)
		go func(w int) {
			defer wg.Done()
			spec := workerSpec{Property: prop, Tier: tier, Seed: seed, Worker: w, NWorkers: nw, Mode: "run",
				Explore: runs, DeadlineS: deadline, ReplayDir: replayDir, MaxFindings: 8, MinBudget: 500}
			results[w], errs[w] = runWorker(bin, spec, scratch, wd)
		}(w)
	}
	wg.Wait()
	for _, e := range errs {
		var d *workerDeath
		if errors.As(e, &d) {
			return reportDeath(prop, tier, seed, bin, scratch, replayDir, d, start, writeEvidence)
		}
	}
	for _, e := range errs {
		if e != nil {
			trouble("%v", e)
		}
	}

	// ---- merge
	hashes := map[uint64]struct{}{}
	pairs := map[uint64]struct{}{}
	faults := map[string]int{}
	probes := map[string]int{}
	floorRuns := map[string]int{}
	var explore, sweep, capped, foreign, nontrivial int
	var simS float64
	var yields, steps, maxYields int64
	var maxSteps, maxTasks int
	floorsDone, exploreDone := true, true
	var samples []sample
	var foreignEx []string
	merged := map[string]*finding{}
	memAbort := ""
	unrepro := map[string]int{}
	for _, r := range results {
		for k, n := range r.Unreproducible {
			unrepro[k] += n
		}
		if r.MemAbort != "" {
			memAbort = r.MemAbort
		}
		explore += r.ExploreRuns
		sweep += r.SweepRuns
		capped += r.Capped
		foreign += r.ForeignRuns
		foreignEx = append(foreignEx, r.ForeignEx...)
		nontrivial += r.Nontrivial
		simS += r.SimSeconds
		yields += r.Yields
		maxYields = max(maxYields, r.MaxYields)
		maxSteps = max(maxSteps, r.MaxSteps)
		maxTasks = max(maxTasks, r.MaxTasks)
		steps += r.Steps
		floorsDone = floorsDone && r.FloorsDone
		exploreDone = exploreDone && r.ExploreDone
		for _, h := range r.Hashes {
			hashes[h] = struct{}{}
		}
		for _, h := range r.Pairs {
			pairs[h] = struct{}{}
		}
		for k, v := range r.Faults {
			faults[k] += v
		}
		for k, v := range r.Probes {
			probes[k] += v
		}
		for k, v := range r.FloorRuns {
			floorRuns[k] += v
		}
		if len(samples) < 3 && len(r.Samples) > 0 {
			samples = append(samples, r.Samples[0])
		}
		for _, f := range r.Findings {
			m := merged[f.Key]
			if m == nil {
				c := *f
				merged[f.Key] = &c
				continue
			}
			m.Count += f.Count
			if m.ReplayPath == "" || (f.ReplayPath != "" && f.Size < m.Size) {
				m.ReplayPath, m.Size, m.Detail, m.MinFailed = f.ReplayPath, f.Size, f.Detail, f.MinFailed
			}
		}
	}
	evaluations := explore + sweep
	for _, v := range floorRuns {
		evaluations += v
	}
	// runs that hit a cap are reported as <id>.no-quiescence violations by the workers (bounded liveness); "capped"
	// only counts capped runs that also blocked outside the simulator (trouble, reported below as foreign)
	if foreign > 0 {
		trouble("%d runs had the baton holder block outside the simulator's control, e.g. %v", foreign, foreignEx)
	}

	// ---- classify
	known := loadKnown()
	var keysSorted []string
	for k := range merged {
		keysSorted = append(keysSorted, k)
	}
	sort.Strings(keysSorted)
	violations := 0
	var knownHit []string
	exit := 0
	usedReplays := map[string]bool{}
	for _, k := range keysSorted {
		f := merged[k]
		if kl := matchKnown(known, prop, f.Rule, f.Sig); kl != nil {
			fmt.Printf("KNOWN-FINDING: property=%s %s [rule=%s sig=%s seen=%d]\n", prop, kl.text, f.Rule, f.Sig, f.Count)
			knownHit = append(knownHit, f.Rule+" "+f.Sig)
			if f.ReplayPath != "" {
				usedReplays[f.ReplayPath] = true
			}
			continue
		}
		if f.ReplayPath == "" {
			trouble("violation %s found (%d runs, first %s) but no replay file could be produced: %s\n%s", k, f.Count, f.FirstRun, f.MinFailed, f.Detail)
		}
		// confirm in a fresh process
		rr, err := runWorker(bin, workerSpec{Property: prop, Tier: tier, Seed: seed, Mode: "replay", ReplayFile: f.ReplayPath, Worker: 900 + violations}, scratch, 5*time.Minute)
		if err != nil {
			trouble("replay confirmation failed to run: %v", err)
		}
		if rr.Replay == nil || !rr.Replay.Reproduced || !rr.Replay.SameHash {
			trouble("violation %s does not replay exactly in a fresh process (reproduced=%v same_hash=%v); not reported", k, rr.Replay != nil && rr.Replay.Reproduced, rr.Replay != nil && rr.Replay.SameHash)
		}
		usedReplays[f.ReplayPath] = true
		violations++
		exit = 1
		fmt.Printf("VIOLATION property=%s replay=%s\n", prop, f.ReplayPath)
		fmt.Printf("  rule=%s sig=%s runs=%d first=%s\n  %s\n", f.Rule, f.Sig, f.Count, f.FirstRun, strings.ReplaceAll(f.Detail, "\n", "\n  "))
	}
	// remove replay files that are not referenced
	if ents, err := os.ReadDir(replayDir); err == nil {
		for _, e := range ents {
			p := filepath.Join(replayDir, e.Name())
			if !usedReplays[p] {
				os.Remove(p)
			}
		}
	}

	// C20 only, thorough tier only: the data-race clause cannot be observed by a serialising simulator.
	// Auxiliary NON-simulation step: the corpus on real goroutines from cold caches under the race detector.
	var raceNote map[string]any
	if prop == "C20" && tier == "thorough" && mutate == "" {
		n, report := raceStep(scratch, seed)
		raceNote = map[string]any{"kind": "runtime monitoring under the Go race detector, not simulation; schedule not controlled; no replay file", "processes": n, "races_or_mismatches": 0}
		if report != "" {
			dst := filepath.Join(replayDir, "race-report.txt")
			_ = os.MkdirAll(replayDir, 0o755)
			_ = os.WriteFile(dst, []byte(report), 0o644)
			usedReplays[dst] = true
			raceNote["races_or_mismatches"] = 1
			if kl := matchKnown(known, prop, "C20.data-race", "race-detector"); kl != nil {
				fmt.Printf("KNOWN-FINDING: property=%s %s [rule=C20.data-race]\n", prop, kl.text)
			} else {
				violations++
				exit = 1
				fmt.Printf("VIOLATION property=%s replay=%s\n  rule=C20.data-race (auxiliary non-simulation step: race detector report, not replayable)\n", prop, dst)
			}
		}
	}

	wall := time.Since(start).Seconds()
	cov := map[string]any{
		"evaluations":           evaluations,
		"distinct_nontrivial":   len(hashes),
		"rule":                  meta.Rule,
		"samples":               samples,
		"explore_runs":          explore,
		"floor_runs":            floorRuns,
		"floors_complete":       floorsDone,
		"explore_complete":      exploreDone,
		"sweep_runs":            sweep,
		"nontrivial_runs":       nontrivial,
		"faults_fired":          faults,
		"probes":                probes,
		"label_pair_coverage":   len(pairs),
		"simulated_seconds":     simS,
		"yields":                yields,
		"max_yields_in_a_run":   maxYields,
		"max_handoffs_in_a_run": maxSteps,
		"max_tasks_in_a_run":    maxTasks,
		"handoffs":              steps,
		"runs_per_hour":         float64(evaluations) / (wall - buildS + 0.001) * 3600,
		"seeds":                 fmt.Sprintf("VERIF_SEED=%d, run index i -> splitmix(seed,i,property)", seed),
		"capped":                capped,
		"components":            meta.Components,
		"known_findings_hit":    knownHit,
		"workers":               nw,
		"build_s":               buildS,
		"exhaustive":            false,
	}
	if raceNote != nil {
		cov["auxiliary_race_step"] = raceNote
	}
	if !floorsDone || !exploreDone {
		cov["note"] = "wall-clock safety cap reached before the planned number of runs; counts are what actually ran"
	}
	var zeroProbes []string
	for k, v := range probes {
		if v == 0 {
			zeroProbes = append(zeroProbes, k)
		}
	}
	if len(zeroProbes) > 0 {
		cov["probes_at_zero"] = zeroProbes
	}
	ev := evidence{PropertyID: prop, Tier: tier, Seed: seed, Level: meta.Level, WallS: wall, Violations: violations, Coverage: cov, Assumptions: meta.Assumptions}
	if writeEvidence {
		_ = os.MkdirAll(filepath.Join(verifDir, "evidence"), 0o755)
		b, _ := json.MarshalIndent(ev, "", " ")
		if err := os.WriteFile(filepath.Join(verifDir, "evidence", prop+".json"), b, 0o644); err != nil {
			trouble("evidence: %v", err)
		}
	}
	fmt.Printf("check: %s %s: %d runs (%d explore, %d floor, %d sweep), %d distinct non-trivial, %d violations, %d known findings, %.1fs (build %.1fs)\n",
		prop, tier, evaluations, explore, evaluations-explore-sweep, sweep, len(hashes), violations, len(knownHit), wall, buildS)
	if len(hashes) < 2 {
		trouble("fewer than 2 distinct non-trivial runs: the check explored nothing")
	}
	for k, n := range unrepro {
		if merged[k] == nil && exit == 1 {
			fmt.Printf("note: %q was also observed in %d run(s) of long-lived worker processes but not reproduced in a fresh process (a consequence of state the reported violation leaves behind)\n", k, n)
			continue
		}
		if merged[k] == nil {
			// seen only in long-lived worker processes, never reproducible in a fresh one: cannot be reported as a
			// violation (no replay), must not be ignored either
			trouble("%q was observed in %d run(s) but never reproduced when replayed in a fresh process (state left in the worker process by earlier runs is involved)", k, n)
		}
	}
	if memAbort != "" && exit == 0 {
		trouble("a worker stopped early to protect the machine (%s) and no violation explains it", memAbort)
	}
	return exit
}

// reportDeath turns "library code killed the worker process with a fatal error" into a violation with a replay file:
// the input of the run that was executing is taken from the worker's crumb file and re-executed in a fresh
// process, which has to die the same way.
func reportDeath(prop, tier string, seed uint64, bin, scratch, replayDir string, d *workerDeath, start time.Time, writeEvidence bool) int {
	raw, err := os.ReadFile(d.crumb)
	if err != nil {
		trouble("%v (and no record of the run that was executing: %v)", d, err)
	}
	var rf map[string]json.RawMessage // raw: the seeds are 64-bit integers
	if err := json.Unmarshal(raw, &rf); err != nil {
		trouble("%v (crumb unreadable: %v)", d, err)
	}
	rule, sig := prop+".process-killed", d.class+" @ "+d.frame
	detail := fmt.Sprintf("library code killed the process with a Go fatal error (%s), which no recover() can catch; innermost library frame: %s", d.class, d.frame)
	rf["expect"], _ = json.Marshal(map[string]any{"rule": rule, "sig": sig, "event_hash": ""})
	rf["verif_seed"], _ = json.Marshal(seed)
	rf["detail"], _ = json.Marshal(detail)
	_ = os.MkdirAll(replayDir, 0o755)
	path := filepath.Join(replayDir, fmt.Sprintf("%s-%s.process-killed-%s.json", prop, prop, d.class))
	b, _ := json.MarshalIndent(rf, "", " ")
	if err := os.WriteFile(path, b, 0o644); err != nil {
		trouble("%v", err)
	}
	_, err = runWorker(bin, workerSpec{Property: prop, Tier: tier, Seed: seed, Mode: "replay", ReplayFile: path, Worker: 950}, scratch, 5*time.Minute)
	var d2 *workerDeath
	if !errors.As(err, &d2) || d2.class != d.class {
		trouble("%v; the run recorded as executing does not kill a fresh process (%v)", d, err)
	}
	fmt.Printf("VIOLATION property=%s replay=%s\n  rule=%s sig=%s\n  %s\n", prop, path, rule, sig, detail)
	wall := time.Since(start).Seconds()
	if writeEvidence {
		ev := evidence{PropertyID: prop, Tier: tier, Seed: seed, Level: "exploration", WallS: wall, Violations: 1,
			Coverage: map[string]any{"note": "the run was cut short: library code killed a worker process (" + sig + "); counts of the other workers are not merged"}}
		_ = os.MkdirAll(filepath.Join(verifDir, "evidence"), 0o755)
		eb, _ := json.MarshalIndent(ev, "", " ")
		_ = os.WriteFile(filepath.Join(verifDir, "evidence", prop+".json"), eb, 0o644)
	}
	fmt.Printf("check: %s %s: cut short, 1 violations, %.1fs\n", prop, tier, wall)
	return 1
}

func cmdReplay(args []string) int {
	if len(args) < 1 {
		trouble("usage: check replay <file>")
	}
	raw, err := os.ReadFile(args[0])
	if err != nil {
		trouble("%v", err)
	}
	var rf struct {
		Property string `json:"property"`
		Expect   struct {
			Rule string `json:"rule"`
			Sig  string `json:"sig"`
		} `json:"expect"`
	}
	if err := json.Unmarshal(raw, &rf); err != nil {
		trouble("%v", err)
	}
	scratch, err := os.MkdirTemp(scratchBase(), "kmipverif-")
	if err != nil {
		trouble("scratch: %v", err)
	}
	defer os.RemoveAll(scratch)
	bin := build(scratch, "")
	if rf.Property == "C20" {
		codecReference(bin, scratch)
	}
	abs, _ := filepath.Abs(args[0])
	rr, err := runWorker(bin, workerSpec{Property: rf.Property, Mode: "replay", ReplayFile: abs}, scratch, 5*time.Minute)
	if strings.HasSuffix(rf.Expect.Rule, ".process-killed") {
		var d *workerDeath
		if errors.As(err, &d) && strings.HasPrefix(rf.Expect.Sig, d.class) {
			fmt.Printf("VIOLATION property=%s replay=%s\n  rule=%s sig=%s (the replay killed its process again: %s @ %s)\n", rf.Property, abs, rf.Expect.Rule, rf.Expect.Sig, d.class, d.frame)
			return 1
		}
		if err != nil {
			trouble("%v", err)
		}
		fmt.Printf("replay of %s: expected %s|%s not reproduced on the current tree (the process survived)\n", abs, rf.Expect.Rule, rf.Expect.Sig)
		return 0
	}
	if err != nil {
		trouble("%v", err)
	}
	if rr.Replay.Reproduced {
		fmt.Printf("VIOLATION property=%s replay=%s\n  rule=%s sig=%s same_event_hash=%v\n", rf.Property, abs, rf.Expect.Rule, rf.Expect.Sig, rr.Replay.SameHash)
		return 1
	}
	fmt.Printf("replay of %s: expected %s|%s not reproduced on the current tree (got %v)\n", abs, rf.Expect.Rule, rf.Expect.Sig, rr.Replay.Got)
	return 0
}

func main() {
	if len(os.Args) < 2 {
		trouble("usage: check run|replay|selftest ...")
	}
	switch os.Args[1] {
	case "run":
		os.Exit(cmdRun(os.Args[2:]))
	case "replay":
		os.Exit(cmdReplay(os.Args[2:]))
	case "selftest":
		os.Exit(cmdSelftest(os.Args[2:]))
	case "sensitivity":
		os.Exit(cmdSensitivity(os.Args[2:]))
	default:
		trouble("unknown command %q", os.Args[1])
	}
}

// raceStep builds the harness with -race against the overlay and runs TestCodecRace in several
// fresh processes. It returns the number of processes and the first race report / mismatch, if any.
func raceStep(scratch string, seed uint64) (int, string) {
	env := append(goEnv(), "CGO_ENABLED=1")
	bin := filepath.Join(scratch, "harness.race.test")
	ra := append([]string{"test", "-c", "-race", "-vet=off"}, modArgs...)
	ra = append(ra, "-overlay", filepath.Join(scratch, "ov", "overlay.json"), "-o", bin, "./harness")
	if out, err := run(simDir, env, goBin, ra...); err != nil {
		trouble("building the race-detector binary failed:\n%s", tail(out, 40))
	}
	n := 8
	reports := make([]string, n)
	var wg sync.WaitGroup
	for i := 0; i < n; i++ {
		wg.Add(1)
		go func(i int) {
			defer wg.Done()
			cmd := exec.Command(bin, "-test.run", "^TestCodecRace$", "-test.timeout", "20m")
			cmd.Env = append(os.Environ(), "KMIPVERIF_RACE=1", fmt.Sprintf("KMIPVERIF_RACE_SEED=%d", seed*1000+uint64(i)), "GOMAXPROCS=8")
			out, err := cmd.CombinedOutput()
			if err != nil || strings.Contains(string(out), "DATA RACE") {
				reports[i] = string(out)
			}
		}(i)
	}
	wg.Wait()
	for _, r := range reports {
		if r != "" {
			return n, r
		}
	}
	return n, ""
}

// codecReference has C20's reference results computed with one fresh process per corpus entry and makes
// every later child of this driver (workers, replay confirmations) use them.
func codecReference(bin, scratch string) {
	ref := filepath.Join(scratch, "codec-reference.json")
	cmd := exec.Command(bin, "-test.run", "^TestCodecRef$", "-test.timeout", "10m")
	cmd.Env = append(os.Environ(), "KMIPVERIF_REF_ALL="+ref)
	if out, err := cmd.CombinedOutput(); err != nil {
		trouble("computing the codec reference in fresh processes failed: %v\n%s", err, tail(string(out), 30))
	}
	os.Setenv("KMIPVERIF_CODEC_REF", ref)
}
