package main

import (
	"fmt"
	"os"
	"path/filepath"
	"strings"
	"sync"
	"time"
)

var repoTestPkgs = []string{
	"github.com/ovh/kmip-go/kmipserver", "github.com/ovh/kmip-go/kmipclient", "github.com/ovh/kmip-go/ttlv",
	"github.com/ovh/kmip-go/kmiptest", "github.com/ovh/kmip-go", "github.com/ovh/kmip-go/payloads",
}

// cmdSelftest: rewriter soundness (the repository's own tests against the
// overlay in pass-through mode) and determinism (same PRNG value, separate
// processes, different GOMAXPROCS: identical full event logs).
func cmdSelftest(args []string) int {
	fast := false
	var props []string
	for _, a := range args {
		if a == "--fast" {
			fast = true
		} else {
			props = append(props, a)
		}
	}
	scratch, err := os.MkdirTemp(scratchBase(), "kmipverif-")
	if err != nil {
		trouble("scratch: %v", err)
	}
	defer os.RemoveAll(scratch)
	bin := build(scratch, "")
	start := time.Now()
	// 1. rewriter soundness
	a := append([]string{"test", "-vet=off", "-count=1"}, modArgs...)
	a = append(a, "-overlay", filepath.Join(scratch, "ov", "overlay.json"))
	a = append(a, repoTestPkgs...)
	if out, err := run(simDir, goEnv(), goBin, a...); err != nil {
		trouble("the repository's tests fail against the instrumented overlay in pass-through mode:\n%s", tail(out, 80))
	}
	fmt.Printf("selftest: rewriter soundness ok (repository tests pass against the overlay, %.1fs)\n", time.Since(start).Seconds())
	// 1b. the rewriter's own regression test: every blocking construct, same trace with and without a simulation
	if out, err := run(simDir, goEnv(), goBin, "test", "-vet=off", "-count=1", "./instrument"); err != nil {
		trouble("the rewriter's construct test fails:\n%s", tail(out, 60))
	}
	fmt.Println("selftest: rewriter construct test ok (receives in expressions, range over channels, labelled loops, locks, waits, sleeps)")
	// 2. determinism
	if len(props) == 0 {
		props = allProps(bin, scratch)
	}
	nruns, reps := 64, []int{1, 4, 16, 1, 4, 16}
	if fast {
		nruns, reps = 24, []int{1, 16, 4}
	}
	for _, p := range props {
		logs := make([]string, len(reps))
		var wg sync.WaitGroup
		var mu sync.Mutex
		var firstErr error
		for i, gmp := range reps {
			wg.Add(1)
			go func(i, gmp int) {
				defer wg.Done()
				spec := workerSpec{Property: p, Tier: "quick", Seed: 12345, Mode: "dump", DumpRuns: nruns, Worker: 100 + i}
				os.Setenv("KMIPVERIF_GOMAXPROCS", fmt.Sprint(gmp))
				res, err := runWorkerGMP(bin, spec, scratch, 10*time.Minute, gmp)
				_ = res
				if err != nil {
					mu.Lock()
					firstErr = err
					mu.Unlock()
					return
				}
				b, err := os.ReadFile(filepath.Join(scratch, fmt.Sprintf("out-%s-%s-%d.json.log", p, "dump", 100+i)))
				if err != nil {
					mu.Lock()
					firstErr = err
					mu.Unlock()
					return
				}
				logs[i] = string(b)
			}(i, gmp)
		}
		wg.Wait()
		if firstErr != nil {
			trouble("determinism run for %s: %v", p, firstErr)
		}
		for i := 1; i < len(logs); i++ {
			if logs[i] != logs[0] {
				trouble("determinism: %s: event logs of process %d (GOMAXPROCS=%d) differ from process 0:\n%s", p, i, reps[i], firstDiff(logs[0], logs[i]))
			}
		}
		if strings.Contains(logs[0], "REPLAY-DIVERGES") {
			trouble("determinism: %s: a recorded tape does not replay to the same event log:\n%s", p, grepLines(logs[0], "REPLAY-DIVERGES"))
		}
		fmt.Printf("selftest: determinism ok for %s (%d runs x %d processes, full event logs identical, tapes replay)\n", p, nruns, len(reps))
	}
	return 0
}

func firstDiff(a, b string) string {
	la, lb := strings.Split(a, "\n"), strings.Split(b, "\n")
	for i := 0; i < len(la) && i < len(lb); i++ {
		if la[i] != lb[i] {
			return fmt.Sprintf("line %d:\n- %s\n+ %s", i, la[i], lb[i])
		}
	}
	return fmt.Sprintf("lengths differ: %d vs %d lines", len(la), len(lb))
}

func grepLines(s, pat string) string {
	var out []string
	for _, ln := range strings.Split(s, "\n") {
		if strings.Contains(ln, pat) {
			out = append(out, ln)
		}
	}
	return strings.Join(out, "\n")
}

func allProps(bin, scratch string) []string {
	out, err := run(scratch, os.Environ(), bin, "-test.run", "^TestListProps$", "-test.v")
	if err != nil {
		trouble("listing properties: %v\n%s", err, out)
	}
	var ps []string
	for _, ln := range strings.Split(out, "\n") {
		if v, ok := strings.CutPrefix(strings.TrimSpace(ln), "PROP "); ok {
			ps = append(ps, v)
		}
	}
	return ps
}

// cmdSensitivity applies each deliberate breakage of the rewriter's mutation table to the overlay
// (never to /repo) and requires the quick tier of the matching property to report a violation.
func cmdSensitivity(args []string) int {
	scratch, err := os.MkdirTemp(scratchBase(), "kmipverif-")
	if err != nil {
		trouble("scratch: %v", err)
	}
	defer os.RemoveAll(scratch)
	instr := filepath.Join(scratch, "instrument")
	if out, err := run(simDir, goEnv(), goBin, "build", "-o", instr, "./instrument"); err != nil {
		trouble("building the rewriter failed:\n%s", out)
	}
	out, err := run(simDir, goEnv(), instr, "-list-mutations")
	if err != nil {
		trouble("listing mutations: %v", err)
	}
	want := map[string]bool{}
	for _, a := range args {
		want[a] = true
	}
	missed := 0
	total := 0
	for _, ln := range strings.Split(strings.TrimSpace(out), "\n") {
		f := strings.Fields(ln)
		if len(f) != 2 || (len(want) > 0 && !want[f[0]] && !want[f[1]]) {
			continue
		}
		name, prop := f[0], f[1]
		total++
		sub, err := os.MkdirTemp(scratch, "m-")
		if err != nil {
			trouble("scratch: %v", err)
		}
		start := time.Now()
		code, rules := runPropertyQuiet(prop, name, sub, start)
		os.RemoveAll(sub)
		status := "DETECTED"
		if code != 1 {
			status = "MISSED"
			missed++
		}
		fmt.Printf("sensitivity: %-26s %s %-8s %s (%.1fs)\n", name, prop, status, strings.Join(rules, ","), time.Since(start).Seconds())
	}
	fmt.Printf("sensitivity: %d of %d deliberate breakages detected\n", total-missed, total)
	if missed > 0 {
		return 2
	}
	return 0
}
