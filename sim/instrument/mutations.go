package main

// mutation is a deliberate breakage applied to the source text of one file
// before instrumentation (never to /repo itself): the sensitivity self-test
// must see the matching check fail.
type mutation struct {
	property string
	file     string
	old, new string
}

var mutations = map[string]mutation{
	// C07
	"c07-overread":     {"C07", "ttlv/io.go", "s.inner.Read(buf[read:need])", "s.inner.Read(buf[read:cap(buf)])"},
	"c07-max-after":    {"C07", "ttlv/io.go", "if s.max > 0 && need > s.max {", "if s.max > 0 && read > s.max {"},
	// C09
	"c09-stop-never":   {"C09", "kmipserver/router.go", "stopped = true", "stopped = false"},
	"c09-no-id-echo":   {"C09", "kmipserver/router.go", "UniqueBatchItemID: req.BatchItem[i].UniqueBatchItemID,\n\t\t\t\tResultStatus:", "ResultStatus:"},
	"c09-no-count":     {"C09", "kmipserver/router.go", "if int(req.Header.BatchCount) != len(req.BatchItem) {", "if false {"},
	"c09-undo-ok":      {"C09", "kmipserver/router.go", "if co == kmip.BatchErrorContinuationOptionUndo {", "if false {"},
	// C10
	"c10-no-lock":      {"C10", "kmipclient/client.go", "\tc.lock.Lock()\n\tdefer c.lock.Unlock()\n", ""},
	"c10-no-terminate": {"C10", "kmipclient/conn.go", "\t\t// Close the client to cancel the operation on server\n\t\t_ = c.terminate(io.ErrClosedPipe)\n\t\treturn nil, ctx.Err()", "\t\treturn nil, ctx.Err()"},
	// C11
	"c11-retry-5":      {"C11", "kmipclient/client.go", "retry := 3", "retry := 5"},
	"c11-no-reconnect": {"C11", "kmipclient/client.go", "if c.conn == nil || c.conn.broken() {", "if c.conn == nil {"},
	"c11-close-noflag": {"C11", "kmipclient/client.go", "\tc.closed.Store(true)\n\tc.connLock.Lock()", "\tc.connLock.Lock()"},
	// C12
	"c12-no-count":     {"C12", "kmipclient/client.go", "if int(resp.Header.BatchCount) != len(resp.BatchItem) || len(resp.BatchItem) != len(payloads) {", "if len(resp.BatchItem) == 0 {"},
	"c12-no-err":       {"C12", "kmipclient/client.go", "\tbi := resp[0]\n\tif err := bi.Err(); err != nil {\n\t\treturn nil, err\n\t}", "\tbi := resp[0]"},
	// C20
	"c20-clear-keeps-version": {"C20", "ttlv/encoder.go", "\tenc.extension.version = nil\n", ""},
	"c20-cache-by-name":       {"C20", "ttlv/encoder.go", "if f, ok := encodeFuncsCache.Load(ty); ok {", "if f, ok := encodeFuncsCache.Load(ty.Kind()); ok && ty.Kind() == reflect.Struct {"},
	// C13
	"c13-fallback":     {"C13", "kmipclient/client.go", "if !slices.Contains(c.supportedVersions, kmip.V1_0) {", "if false {"},
	"c13-first-listed": {"C13", "kmipclient/client.go", "if best == nil || ttlv.CompareVersions(v, *best) > 0 {", "if best == nil {"},
}
