package main

// mutation is a deliberate breakage applied to the source text of one file
// before instrumentation (never to /repo itself): the sensitivity self-test
// must see the matching check fail.
type mutation struct {
	file     string
	old, new string
	property string
}

var mutations = map[string]mutation{}
