package main

// mutation is a deliberate breakage applied to the source text of files of
// /repo before instrumentation (never to /repo itself): the sensitivity
// self-test (`check selftest`) must see the matching check report a violation.
type edit struct{ file, old, new string }

type mutation struct {
	property string
	edits    []edit
}

func one(prop, file, old, new string) mutation {
	return mutation{prop, []edit{{file, old, new}}}
}

var mutations = map[string]mutation{
	// C07
	"c07-overread":      one("C07", "ttlv/io.go", "s.inner.Read(buf[read:need])", "s.inner.Read(buf[read:cap(buf)])"),
	"c07-max-after":     one("C07", "ttlv/io.go", "if s.max > 0 && need > s.max {", "if s.max > 0 && read > s.max {"),
	"c07-drop-with-eof": one("C07", "ttlv/io.go", "if err != nil && n == 0 {", "if err != nil {"),
	// C08
	"c08-no-recover":      one("C08", "kmipserver/router.go", "\t\terr := recover()\n\t\tif err == nil {\n\t\t\treturn\n\t\t}", "\t\tvar err any\n\t\tif err == nil {\n\t\t\treturn\n\t\t}"),
	"c08-unbuffered-err":  one("C08", "kmipserver/conn.go", "errCh := make(chan error, 1)", "errCh := make(chan error)"),
	"c08-close-tx":        one("C08", "kmipserver/conn.go", "\tc.tx.Store(chan txMsg(nil))\n", "\tif tx := c.tx.Swap(chan txMsg(nil)); tx != nil && tx != chan txMsg(nil) {\n\t\tclose(tx.(chan txMsg))\n\t}\n"),
	"c08-no-stream-close": one("C08", "kmipserver/server.go", "\tdefer stream.Close()\n", "\tdefer func() { _ = stream }()\n"),
	"c08-decode-err-drop": one("C08", "ttlv/io.go", "if err != nil && !IsErrEncoding(err) {", "if false {"),
	// C09
	"c09-stop-never": one("C09", "kmipserver/router.go", "stopped = true", "stopped = false"),
	"c09-no-id-echo": one("C09", "kmipserver/router.go", "UniqueBatchItemID: req.BatchItem[i].UniqueBatchItemID,\n\t\t\t\tResultStatus:", "ResultStatus:"),
	"c09-no-count":   one("C09", "kmipserver/router.go", "if int(req.Header.BatchCount) != len(req.BatchItem) {", "if false {"),
	"c09-undo-ok":    one("C09", "kmipserver/router.go", "if co == kmip.BatchErrorContinuationOptionUndo {", "if false {"),
	// C10
	"c10-no-lock":            one("C10", "kmipclient/client.go", "\tc.lock.Lock()\n\tdefer c.lock.Unlock()\n", ""),
	"c10-no-terminate":       one("C10", "kmipclient/conn.go", "\t\t// Close the client to cancel the operation on server\n\t\t_ = c.terminate(io.ErrClosedPipe)\n\t\treturn nil, ctx.Err()", "\t\treturn nil, ctx.Err()"),
	"c10-no-terminate-avail": one("C10", "kmipclient/conn.go", "\t\t_ = c.terminate(io.ErrClosedPipe)\n\t\treturn nil, err\n", "\t\treturn nil, err\n"),
	// C11
	"c11-retry-5":        one("C11", "kmipclient/client.go", "retry := 3", "retry := 5"),
	"c11-no-reconnect":   one("C11", "kmipclient/client.go", "if c.conn == nil || c.conn.broken() {", "if c.conn == nil {"),
	"c11-close-noflag":   one("C11", "kmipclient/client.go", "\tc.closed.Store(true)\n\tc.connLock.Lock()", "\tc.connLock.Lock()"),
	"c11-unbuffered-err": one("C11", "kmipclient/conn.go", "errCh := make(chan error, 1)", "errCh := make(chan error)"),
	// C12
	"c12-no-count": one("C12", "kmipclient/client.go", "if int(resp.Header.BatchCount) != len(resp.BatchItem) || len(resp.BatchItem) != len(payloads) {", "if len(resp.BatchItem) == 0 {"),
	"c12-no-err":   one("C12", "kmipclient/client.go", "\tbi := resp[0]\n\tif err := bi.Err(); err != nil {\n\t\treturn nil, err\n\t}", "\tbi := resp[0]"),
	"c12-unchecked": {"C12", []edit{
		{"kmipclient/client.go", "\ttyped, ok := resp.(Resp)\n\tif !ok {", "\ttyped, ok := resp.(Resp), true\n\tif !ok {"},
		{"kmipclient/client.go", "\tif bi.ResponsePayload == nil || bi.ResponsePayload.Operation() != payload.Operation() {", "\tif false {"},
	}},
	"c12-signer-unchecked":         one("C12", "kmipclient/sign_verify.go", "\t\tpubKey, ok := c.publicKey.(*ecdsa.PublicKey)\n\t\tif !ok {", "\t\tpubKey, ok := c.publicKey.(*ecdsa.PublicKey), true\n\t\tif !ok {"),
	"c08-http-type-panic":          one("C08", "ttlv/encoding_json.go", "\t// Unknown type name: report the invalid type 0, which no reading method\n\t// accepts, so that the caller gets an encoding error instead of a panic.\n\treturn Type(0)", "\tpanic(\"Invalid type\")"),
	"c08-alloc-by-announced-count": one("C08", "kmipserver/router.go", "\tif int(req.Header.BatchCount) != len(req.BatchItem) {", "\tif n := int(req.Header.BatchCount); n > 0 {\n\t\tprealloc := make([]kmip.ResponseBatchItem, n)\n\t\t_ = prealloc\n\t}\n\tif int(req.Header.BatchCount) != len(req.BatchItem) {"),
	"c08-conn-deadline-never-cleared": {"C08", []edit{
		{"kmipserver/conn.go", "\tc.tx.Store(make(chan txMsg))\n\tc.loops.Add(2)", "\t_ = netCon.SetDeadline(time.Now().Add(10 * time.Second))\n\tc.tx.Store(make(chan txMsg))\n\tc.loops.Add(2)"},
		{"kmipserver/conn.go", "import (\n", "import (\n\t\"time\"\n"},
	}},
	"c08-json-goquote": one("C08", "ttlv/encoding_json.go", "\t\treturn appendJSONString(b, str)", "\t\treturn strconv.AppendQuote(b, str)"),
	// C13
	"c13-fallback":                one("C13", "kmipclient/client.go", "if !slices.Contains(c.supportedVersions, kmip.V1_0) {", "if false {"),
	"c13-first-listed":            one("C13", "kmipclient/client.go", "if best == nil || ttlv.CompareVersions(v, *best) > 0 {", "if best == nil {"),
	"c13-enforced-negotiates":     one("C13", "kmipclient/client.go", "\tif c.version != nil {\n\t\treturn nil\n\t}\n\tmsg := kmip.NewRequestMessage(kmip.V1_1", "\tmsg := kmip.NewRequestMessage(kmip.V1_1"),
	"c13-cluster-nil-timeout":     one("C13", "kmipclient/dialer_cluster.go", "\t\tretryTimeout := 5 * time.Second\n\t\topts.retryTimeout = &retryTimeout\n", "\t\t*opts.retryTimeout = 5 * time.Second\n"),
	"c11-report-before-terminate": one("C11", "kmipclient/conn.go", "\t\t\t\t_ = c.terminate(err)\n\t\t\t\treq.err <- err\n\t\t\t\tclose(req.err)\n\t\t\t\treturn", "\t\t\t\treq.err <- err\n\t\t\t\tclose(req.err)\n\t\t\t\t_ = c.terminate(err)\n\t\t\t\treturn"),
	"c11-cluster-date-nil":        one("C11", "kmipclient/dialer_cluster.go", "servers[0].lastError = time.Time{}", "servers[0].lastError = time.Date(0, 0, 0, 0, 0, 0, 0, nil)"),
	"c11-default-dialer-captures-ctx": {"C11", []edit{
		{"kmipclient/client.go", "\tdialer := opts.dialer\n\tif dialer == nil {\n\t\tdialer = func(ctx context.Context) (net.Conn, error) {\n\t\t\ttlsDialer := tls.Dialer{\n\t\t\t\tConfig: tlsCfg,\n\t\t\t}\n\t\t\treturn tlsDialer.DialContext(ctx, \"tcp\", addr)", "\tdialer := opts.dialer\n\tif dialer == nil {\n\t\tdialCtx0 := ctx\n\t\tdialer = func(ctx context.Context) (net.Conn, error) {\n\t\t\ttlsDialer := tls.Dialer{\n\t\t\t\tConfig: tlsCfg,\n\t\t\t}\n\t\t\treturn tlsDialer.DialContext(dialCtx0, \"tcp\", addr)"},
	}},
	"c08-handshake-without-context": one("C08", "kmipserver/server.go", "tcon.HandshakeContext(srv.ctx)", "tcon.Handshake()"),
	"c16-handshake-without-context": one("C16", "kmipserver/server.go", "tcon.HandshakeContext(srv.ctx)", "tcon.Handshake()"),
	// wave 15 dimensions
	"c13-response-version-must-match": one("C13", "kmipclient/client.go", "\t\tresp, err := c.conn.roundtrip(ctx, msg)\n\t\tif err == nil {\n\t\t\treturn resp, nil\n\t\t}", "\t\tresp, err := c.conn.roundtrip(ctx, msg)\n\t\tif err == nil {\n\t\t\tif resp.Header.ProtocolVersion != msg.Header.ProtocolVersion {\n\t\t\t\treturn nil, errors.New(\"unexpected protocol version in response\")\n\t\t\t}\n\t\t\treturn resp, nil\n\t\t}"),
	"c15-detached-global-holder": {"C15", []edit{
		{"kmipserver/context.go", "\tif bd == nil {\n\t\tpanic(\"not in a batch context\")\n\t}\n\tbd.idPlaceholder = id\n", "\tif bd == nil {\n\t\tbd = &noBatch\n\t}\n\tbd.idPlaceholder = id\n"},
		{"kmipserver/context.go", "\tif bd == nil {\n\t\treturn \"\"\n\t}\n\treturn bd.idPlaceholder\n", "\tif bd == nil {\n\t\tbd = &noBatch\n\t}\n\treturn bd.idPlaceholder\n"},
		{"kmipserver/context.go", "type ctxBatch struct{}\n", "type ctxBatch struct{}\n\nvar noBatch batchData\n"},
	}},
	"c20-lazy-enum-name-index": {"C20", []edit{
		{"ttlv/registry.go", "\tif enumsByName[tag] == nil {\n\t\tenumsByName[tag] = make(map[string]uint32, len(names))\n\t}\n\tfor enum, name := range names {\n\t\tenumNames[tag][uint32(enum)] = name\n\t\tenumsByName[tag][name] = uint32(enum)\n\t}\n", "\tfor enum, name := range names {\n\t\tenumNames[tag][uint32(enum)] = name\n\t}\n\tdelete(enumsByName, tag)\n"},
		{"ttlv/registry.go", "\tif reg := enumsByName[tag]; reg != nil {\n\t\tn, ok := reg[name]", "\treg, built := enumsByName[tag]\n\tif !built && enumNames[tag] != nil {\n\t\treg = make(map[string]uint32, len(enumNames[tag]))\n\t\tenumsByName[tag] = reg\n\t\tfor enum, nm := range enumNames[tag] {\n\t\t\treg[nm] = enum\n\t\t}\n\t}\n\tif reg != nil {\n\t\tn, ok := reg[name]"},
	}},
	// C15
	"c15-shared-batchdata": {"C15", []edit{
		{"kmipserver/context.go", "\tbdata := &batchData{\n\t\theader: hdr,\n\t}\n", "\tbdata := &sharedBatchData\n\tbdata.header = hdr\n"},
		{"kmipserver/context.go", "type ctxBatch struct{}\n", "type ctxBatch struct{}\n\nvar sharedBatchData batchData\n"},
	}},
	"c15-per-conn-batchdata": {"C15", []edit{
		{"kmipserver/context.go", "\tbdata := &batchData{\n\t\theader: hdr,\n\t}\n", "\tbdata, _ := parent.Value(ctxBatch{}).(*batchData)\n\tif bdata == nil {\n\t\tbdata = &batchData{}\n\t}\n\tbdata.header = hdr\n"},
		{"kmipserver/server.go", "\tctx := newConnContext(stream.ctx, conn.RemoteAddr().String(), tlsState)\n", "\tctx := newConnContext(stream.ctx, conn.RemoteAddr().String(), tlsState)\n\tctx = context.WithValue(ctx, ctxBatch{}, &batchData{})\n"},
	}},
	// C16
	"c16-no-wait":         one("C16", "kmipserver/server.go", "\tsrv.wg.Wait()\n", "\t_ = srv.wg\n"),
	"c16-terminate-early": one("C16", "kmipserver/server.go", "\tctx, err := srv.connectHook(ctx)\n\tif err != nil {", "\tdefer srv.terminateHook(ctx)\n\tctx, err := srv.connectHook(ctx)\n\tif err != nil {"),
	"c16-serve-raw-error": one("C16", "kmipserver/server.go", "\t\t\tif errors.Is(err, net.ErrClosed) {\n\t\t\t\treturn ErrShutdown\n\t\t\t}\n", ""),
	"c16-no-loop-wait":    one("C16", "kmipserver/conn.go", "\tc.loops.Wait()\n", ""),
	"c16-no-accept-lock":  one("C16", "kmipserver/server.go", "\t\tif srv.shuttingDown {", "\t\tif false {"),
	"c16-short-grace":     one("C16", "kmipserver/server.go", "time.AfterFunc(3*time.Second,", "time.AfterFunc(1*time.Second,"),
	// C19
	"c19-shared-cursor-client": one("C19", "kmipclient/client.go", "\t\t\tif i < len(c.middlewares) {\n\t\t\t\treturn c.middlewares[i](chain(i+1), ctx, req)\n\t\t\t}", "\t\t\tif i < len(c.middlewares) {\n\t\t\t\treturn c.middlewares[i](chain(len(c.middlewares)), ctx, req)\n\t\t\t}"),
	"c19-original-req":         one("C19", "kmipserver/router.go", "return exec.middlewares[i](chain(i+1), ctx, rm)", "return exec.middlewares[i](chain(i+1), ctx, req)"),
	"c19-item-reverse":         one("C19", "kmipserver/router.go", "return exec.biMiddlewares[m](chain(m+1), ctx, bi)", "return exec.biMiddlewares[len(exec.biMiddlewares)-1-m](chain(m+1), ctx, bi)"),
	// C20
	"c20-clear-keeps-version": one("C20", "ttlv/encoder.go", "\tenc.extension.version = nil\n", ""),
	"c20-plain-map-tag-memo": {"C20", []edit{
		{"ttlv/encoder.go", "\t\ttag, err := getTagForValue(reflect.ValueOf(value))\n\t\tif err != nil {\n\t\t\tpanic(err)\n\t\t}\n\t\tenc.TagAny(tag, value)", "\t\tdefaultTagsMu.Lock()\n\t\ttag, ok := defaultTags[reflect.TypeOf(value)]\n\t\tdefaultTagsMu.Unlock()\n\t\tif !ok {\n\t\t\tvar err error\n\t\t\ttag, err = getTagForValue(reflect.ValueOf(value))\n\t\t\tif err != nil {\n\t\t\t\tpanic(err)\n\t\t\t}\n\t\t\tdefaultTagsMu.Lock()\n\t\t\tdefaultTags[reflect.TypeOf(value)] = tag\n\t\t\tdefaultTagsMu.Unlock()\n\t\t}\n\t\tenc.TagAny(tag, value)"},
		{"ttlv/encoder.go", "var encodeFuncsCache = new(sync.Map)\n", "var encodeFuncsCache = new(sync.Map)\n\nvar (\n\tdefaultTags   = map[reflect.Type]int{}\n\tdefaultTagsMu sync.Mutex\n)\n"},
	}},
	"c20-cache-by-name": {"C20", []edit{
		{"ttlv/encoder.go", "if f, ok := encodeFuncsCache.Load(ty); ok {", "if f, ok := encodeFuncsCache.Load(ty.Kind().String() + ty.Name()); ok {"},
		{"ttlv/encoder.go", "encodeFuncsCache.Store(ty, f)", "encodeFuncsCache.Store(ty.Kind().String()+ty.Name(), f)"},
	}},
}
