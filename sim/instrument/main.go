// Command instrument is the check-time source rewriter (DESIGN.md §2.2).
//
//	instrument [-mutate name] <repo> <outdir>
//
// It parses the current working tree of <repo>, rewrites the non-test files of
// kmipserver/, kmipclient/, ttlv/io.go (scheduling seams) and ttlv/encoder.go,
// ttlv/decoder.go (codec yields), writes the results and an overlay.json for
// `go build -overlay` into <outdir>. Nothing in <repo> is touched.
//
// Exit status 2 on any construct it cannot handle.
package main

import (
	"bytes"
	"encoding/json"
	"flag"
	"fmt"
	"go/ast"
	"go/format"
	"go/parser"
	"go/printer"
	"go/token"
	"os"
	"path/filepath"
	"reflect"
	"sort"
	"strings"
)

type target struct {
	pattern string
	mode    string // "sched" or "codec"
}

var targets = []target{
	{"kmipserver/*.go", "sched"},
	{"kmipclient/*.go", "sched"},
	{"ttlv/io.go", "sched"},
	{"ttlv/encoder.go", "codec"},
	{"ttlv/decoder.go", "codec"},
	// the writers, readers and registries below the encoder/decoder: a change may introduce shared state there
	// (a package-level scratch buffer, a lazily built index), which only shows when calls interleave inside them
	{"ttlv/encoding_ttlv.go", "codec"},
	{"ttlv/encoding_xml.go", "codec"},
	{"ttlv/encoding_json.go", "codec"},
	{"ttlv/encoding_text.go", "codec"},
	{"ttlv/registry.go", "codec"},
	{"ttlv/version.go", "codec"},
	{"ttlv/ttlv.go", "codec"},
	{"ttlv/reflect.go", "codec"},
	{"ttlv/utils.go", "codec"},
	{"ttlv/value.go", "codec"},
}

// resetFile generates the overlay-only file that empties every lazily filled, process-wide cache of a
// package (package-level sync.Map variables: the per-type plan caches today, whatever a change adds
// tomorrow) so that each simulated run starts from a cold codec.
func resetFile(pkgDir, pkgName, funcName string) string {
	var names, kinds, allVars []string
	files, _ := filepath.Glob(filepath.Join(pkgDir, "*.go"))
	sort.Strings(files)
	for _, f := range files {
		if strings.HasSuffix(f, "_test.go") {
			continue
		}
		af, err := parser.ParseFile(token.NewFileSet(), f, nil, 0)
		if err != nil {
			continue
		}
		for _, d := range af.Decls {
			gd, ok := d.(*ast.GenDecl)
			if !ok || gd.Tok != token.VAR {
				continue
			}
			for _, sp := range gd.Specs {
				vs := sp.(*ast.ValueSpec)
				for i, nm := range vs.Names {
					if nm.Name != "_" {
						allVars = append(allVars, nm.Name)
					}
					kind := ""
					if isSyncMap(vs.Type) {
						kind = "value"
					}
					if isSyncSel(vs.Type, "Once") {
						kind = "once"
					}
					if i < len(vs.Values) {
						switch v := vs.Values[i].(type) {
						case *ast.CallExpr: // new(sync.Map)
							if id, ok := v.Fun.(*ast.Ident); ok && id.Name == "new" && len(v.Args) == 1 && isSyncMap(v.Args[0]) {
								kind = "ptr"
							}
						case *ast.UnaryExpr: // &sync.Map{}
							if cl, ok := v.X.(*ast.CompositeLit); ok && v.Op == token.AND && isSyncMap(cl.Type) {
								kind = "ptr"
							}
						case *ast.CompositeLit:
							if isSyncMap(v.Type) {
								kind = "value"
							}
						}
					}
					if kind != "" {
						names = append(names, nm.Name)
						kinds = append(kinds, kind)
					}
				}
			}
		}
	}
	var b strings.Builder
	fmt.Fprintf(&b, "package %s\n\nimport (\n\t\"sync\"\n\n\t\"kmipverif/simrt\"\n)\n\nvar _ sync.Locker\n\nvar verifVarSnap simrt.VarSnap\n\n// %s empties the lazily built process-wide caches of this package and puts every package-level map back to what it held\n// when the function was first called (after all init functions). Added by the verification overlay only.\nfunc %s() {\n", pkgName, funcName, funcName)
	for i, n := range names {
		if kinds[i] == "once" {
			fmt.Fprintf(&b, "\t%s = sync.Once{}\n", n)
		} else if kinds[i] == "ptr" {
			fmt.Fprintf(&b, "\t%s = new(sync.Map)\n", n)
		} else {
			fmt.Fprintf(&b, "\t%s.Clear()\n", n)
		}
	}
	b.WriteString("\tverifVarSnap.Restore(map[string]any{\n")
	for _, n := range allVars {
		fmt.Fprintf(&b, "\t\t%q: &%s,\n", n, n)
	}
	b.WriteString("\t})\n}\n")
	return b.String()
}

func isSyncMap(e ast.Expr) bool { return isSyncSel(e, "Map") }

func isSyncSel(e ast.Expr, name string) bool {
	se, ok := e.(*ast.SelectorExpr)
	if !ok {
		return false
	}
	id, ok := se.X.(*ast.Ident)
	return ok && id.Name == "sync" && se.Sel.Name == name
}

func fail(a ...any) {
	fmt.Fprintln(os.Stderr, append([]any{"instrument:"}, a...)...)
	os.Exit(2)
}

func main() {
	mutate := flag.String("mutate", "", "apply a named deliberate breakage (sensitivity self-test)")
	list := flag.Bool("list-mutations", false, "print the deliberate breakages and the property each must trip")
	flag.Parse()
	if *list {
		var names []string
		for n := range mutations {
			names = append(names, n)
		}
		sort.Strings(names)
		for _, n := range names {
			fmt.Println(n, mutations[n].property)
		}
		return
	}
	if flag.NArg() != 2 {
		fail("usage: instrument [-mutate name] <repo> <outdir>")
	}
	repo, out := flag.Arg(0), flag.Arg(1)
	if err := os.MkdirAll(out, 0o755); err != nil {
		fail(err)
	}
	overlay := map[string]string{}
	mutApplied := 0
	// channel-typed struct fields of the whole module (for `range x.field` loops)
	_ = filepath.WalkDir(repo, func(path string, d os.DirEntry, err error) error {
		if err != nil || d.IsDir() || !strings.HasSuffix(path, ".go") || strings.HasSuffix(path, "_test.go") || strings.Contains(path, "/.git/") {
			return nil
		}
		if f, err := parser.ParseFile(token.NewFileSet(), path, nil, 0); err == nil {
			collectChanFields(f)
		}
		return nil
	})
	for _, tg := range targets {
		files, _ := filepath.Glob(filepath.Join(repo, tg.pattern))
		sort.Strings(files)
		for _, f := range files {
			if strings.HasSuffix(f, "_test.go") {
				continue
			}
			rel, _ := filepath.Rel(repo, f)
			raw, err := os.ReadFile(f)
			if err != nil {
				fail(err)
			}
			raw = applyMutation(*mutate, rel, raw, &mutApplied)
			src, err := rewriteFile(f, rel, raw, tg.mode)
			if err != nil {
				fail(rel, err)
			}
			dst := filepath.Join(out, strings.ReplaceAll(rel, "/", "__"))
			if err := os.WriteFile(dst, src, 0o644); err != nil {
				fail(err)
			}
			overlay[f] = dst
		}
	}
	// every other non-test file of the module, "light" mode: goroutines, selects, channel operations,
	// locks, waits, sleeps and sync.Pool are put under the simulator's control wherever they sit (a change
	// may introduce them anywhere), but no per-statement yields are added
	_ = filepath.WalkDir(repo, func(path string, d os.DirEntry, err error) error {
		if err != nil {
			return nil
		}
		if d.IsDir() {
			if n := d.Name(); n == ".git" || n == "examples" || n == "testdata" {
				return filepath.SkipDir
			}
			return nil
		}
		if !strings.HasSuffix(path, ".go") || strings.HasSuffix(path, "_test.go") {
			return nil
		}
		if _, done := overlay[path]; done {
			return nil
		}
		raw, err := os.ReadFile(path)
		if err != nil {
			return nil
		}
		rel, _ := filepath.Rel(repo, path)
		raw = applyMutation(*mutate, rel, raw, &mutApplied)
		src, err := rewriteFile(path, rel, raw, "light")
		if err != nil {
			fail(rel, err)
		}
		dst := filepath.Join(out, strings.ReplaceAll(rel, "/", "__"))
		if err := os.WriteFile(dst, src, 0o644); err != nil {
			fail(err)
		}
		overlay[path] = dst
		return nil
	})
	if *mutate != "" && (mutApplied == 0 || mutApplied != len(mutations[*mutate].edits)) {
		fail("unknown or inapplicable mutation", *mutate)
	}
	for _, pk := range [][3]string{{"ttlv", "ttlv", "VerifResetPlanCaches"}, {".", "kmip", "VerifResetCaches"}, {"payloads", "payloads", "VerifResetCaches"}, {"kmipclient", "kmipclient", "VerifResetCaches"}, {"kmipserver", "kmipserver", "VerifResetCaches"}} {
		added := filepath.Join(out, strings.ReplaceAll(pk[1], "/", "_")+"__zz_kmipverif.go")
		if err := os.WriteFile(added, []byte(resetFile(filepath.Join(repo, pk[0]), pk[1], pk[2])), 0o644); err != nil {
			fail(err)
		}
		overlay[filepath.Join(repo, pk[0], "zz_kmipverif.go")] = added
	}
	b, _ := json.MarshalIndent(map[string]any{"Replace": overlay}, "", " ")
	if err := os.WriteFile(filepath.Join(out, "overlay.json"), b, 0o644); err != nil {
		fail(err)
	}
}

func applyMutation(name, rel string, raw []byte, applied *int) []byte {
	if name == "" {
		return raw
	}
	for _, ed := range mutations[name].edits {
		if ed.file != rel {
			continue
		}
		if !strings.Contains(string(raw), ed.old) {
			fail("mutation", name, "does not apply to", rel)
		}
		raw = []byte(strings.Replace(string(raw), ed.old, ed.new, 1))
		*applied++
	}
	return raw
}

type rw struct {
	fset       *token.FileSet
	rel        string
	n          int
	fn         string
	yield      string // simrt.Yield or simrt.YieldCodec
	sched      bool   // rewrite go / select / channel operations / locks / waits / sleeps
	light      bool   // no per-statement yields (files outside the connection code)
	chanIdents map[string]bool
	imports    map[string]bool // local names of the imported packages
}

func (r *rw) site(pos token.Pos) string {
	return fmt.Sprintf("%s:%s:%d", r.rel, r.fn, r.fset.Position(pos).Line)
}

func (r *rw) uniq() int { r.n++; return r.n }

func rewriteFile(path, rel string, raw []byte, mode string) ([]byte, error) {
	fset := token.NewFileSet()
	file, err := parser.ParseFile(fset, path, raw, parser.ParseComments)
	if err != nil {
		return nil, err
	}
	// keep only comments that precede the package clause (build constraints, license)
	var keep []*ast.CommentGroup
	for _, cg := range file.Comments {
		if cg.End() < file.Package {
			keep = append(keep, cg)
		}
	}
	file.Comments = keep
	file.Doc = nil
	r := &rw{fset: fset, rel: rel, yield: "simrt.Yield", sched: mode != "pool", light: mode == "light"}
	r.imports = map[string]bool{}
	for _, imp := range file.Imports {
		name := strings.Trim(imp.Path.Value, `"`)
		if i := strings.LastIndexByte(name, '/'); i >= 0 {
			name = name[i+1:]
		}
		if imp.Name != nil {
			name = imp.Name.Name
		}
		r.imports[name] = true
	}
	if mode == "codec" {
		r.yield = "simrt.YieldCodec"
	}
	// sync.Pool -> simrt.Pool everywhere in the file (types, composite literals)
	usesSync := false
	ast.Inspect(file, func(n ast.Node) bool {
		if se, ok := n.(*ast.SelectorExpr); ok {
			if id, ok := se.X.(*ast.Ident); ok && id.Name == "sync" {
				if se.Sel.Name == "Pool" || se.Sel.Name == "OnceFunc" || se.Sel.Name == "OnceValue" || se.Sel.Name == "OnceValues" {
					id.Name = "simrt"
				} else {
					usesSync = true
				}
			}
		}
		return true
	})
	for _, imp := range file.Imports {
		if imp.Path.Value == `"sync"` && !usesSync {
			file.Decls = append(file.Decls, parseDecl(`var _ sync.Locker`))
		}
	}
	// tls.Dialer -> simrt.TLSDialer: the default dialers of kmipclient reach the network through this seam
	// (a simulation installs simrt.DialHook; without one the shim dials for real)
	usesTLS, hadDialer := false, false
	ast.Inspect(file, func(n ast.Node) bool {
		if se, ok := n.(*ast.SelectorExpr); ok {
			if id, ok := se.X.(*ast.Ident); ok && id.Name == "tls" {
				if se.Sel.Name == "Dialer" {
					id.Name = "simrt"
					se.Sel.Name = "TLSDialer"
					hadDialer = true
				} else if se.Sel.Name == "Conn" {
					// tls.Conn -> simrt.TLSConn: a simulated listener in TLS mode hands these out
					id.Name = "simrt"
					se.Sel.Name = "TLSConn"
					hadDialer = true
				} else {
					usesTLS = true
				}
			}
		}
		return true
	})
	if hadDialer && !usesTLS {
		file.Decls = append(file.Decls, parseDecl(`var _ tls.Config`))
	}
	// net.TCPConn -> simrt.TCPConn: code that digs for the TCP connection under a net.Conn (to set socket options)
	// finds the simulated one
	hadTCP := false
	ast.Inspect(file, func(n ast.Node) bool {
		if se, ok := n.(*ast.SelectorExpr); ok {
			if id, ok := se.X.(*ast.Ident); ok && id.Name == "net" && se.Sel.Name == "TCPConn" {
				id.Name = "simrt"
				hadTCP = true
			}
		}
		return true
	})
	if hadTCP {
		file.Decls = append(file.Decls, parseDecl(`var _ net.Conn`))
	}
	for _, d := range file.Decls {
		if mode == "pool" {
			break
		}
		fd, ok := d.(*ast.FuncDecl)
		if !ok {
			r.fn = "init"
			r.rewriteTree(d)
			continue
		}
		fd.Doc = nil
		if fd.Body == nil {
			continue
		}
		r.fn = fd.Name.Name
		r.chanIdents = map[string]bool{}
		collectChanIdents(fd, r.chanIdents)
		r.rewriteTree(fd.Body)
	}
	addImport(file, "simrt", "kmipverif/simrt")
	file.Decls = append(file.Decls, parseDecl(`var _ = simrt.Yield`))
	var buf bytes.Buffer
	if err := (&printer.Config{Mode: printer.UseSpaces | printer.TabIndent, Tabwidth: 8}).Fprint(&buf, fset, file); err != nil {
		return nil, err
	}
	src, err := format.Source(buf.Bytes())
	if err != nil {
		return buf.Bytes(), fmt.Errorf("generated code does not parse: %w", err)
	}
	return src, nil
}

// rewriteTree rewrites every statement list below root, innermost first.
func (r *rw) rewriteTree(root ast.Node) {
	if r.sched {
		r.normalizeTree(root)
	}
	var lists []*[]ast.Stmt
	ast.Inspect(root, func(n ast.Node) bool {
		switch x := n.(type) {
		case *ast.BlockStmt:
			lists = append(lists, &x.List)
		case *ast.CaseClause:
			lists = append(lists, &x.Body)
		case *ast.CommClause:
			lists = append(lists, &x.Body)
		}
		return true
	})
	for i := len(lists) - 1; i >= 0; i-- {
		*lists[i] = r.rewriteList(*lists[i])
	}
}

func (r *rw) isHotBefore(s ast.Stmt) bool {
	switch x := s.(type) {
	case *ast.SelectStmt, *ast.SendStmt:
		return true
	case *ast.ExprStmt:
		if u, ok := x.X.(*ast.UnaryExpr); ok && u.Op == token.ARROW {
			return true
		}
	}
	return false
}

func (r *rw) isHotAfter(s ast.Stmt) bool {
	if s == nil {
		return false
	}
	switch s.(type) {
	case *ast.AssignStmt, *ast.ExprStmt, *ast.IfStmt:
	default:
		return false
	}
	txt := r.node(s)
	if i := strings.IndexByte(txt, '{'); i >= 0 { // only the header of an if
		txt = txt[:i]
	}
	return strings.Contains(txt, ".Load()") || strings.Contains(txt, ".Swap(") || strings.Contains(txt, "checkAvailable(")
}

func (r *rw) rewriteList(in []ast.Stmt) []ast.Stmt {
	var out []ast.Stmt
	var prev ast.Stmt
	for _, s := range in {
		if _, isCase := s.(*ast.CaseClause); isCase { // switch body block: list of clauses
			return in
		}
		if _, isComm := s.(*ast.CommClause); isComm {
			return in
		}
		y := r.yield
		if r.sched && r.yield == "simrt.Yield" && (r.isHotBefore(s) || r.isHotAfter(prev)) {
			y = "simrt.YieldHot"
		}
		if !r.light {
			out = append(out, r.stmts(fmt.Sprintf(`%s(%q)`, y, r.site(s.Pos())))...)
		}
		if r.sched {
			out = append(out, r.rewriteStmt(s)...)
		} else {
			out = append(out, s)
		}
		prev = s
	}
	return out
}

func (r *rw) rewriteStmt(s ast.Stmt) []ast.Stmt {
	switch x := s.(type) {
	case *ast.LabeledStmt:
		inner := r.rewriteStmt(x.Stmt)
		if len(inner) == 1 {
			x.Stmt = inner[0]
			return []ast.Stmt{x}
		}
		fail(r.site(s.Pos()), "labelled statement needs bracketing; not supported")
	case *ast.GoStmt:
		return r.rewriteGo(x)
	case *ast.SelectStmt:
		return r.rewriteSelect(x)
	case *ast.SendStmt:
		return r.bracket(x, x.Pos())
	case *ast.ExprStmt:
		if u, ok := x.X.(*ast.UnaryExpr); ok && u.Op == token.ARROW {
			return r.bracket(x, x.Pos())
		}
		if call, ok := x.X.(*ast.CallExpr); ok && len(call.Args) == 1 {
			if sel, ok := call.Fun.(*ast.SelectorExpr); ok && sel.Sel.Name == "Sleep" {
				if id, ok := sel.X.(*ast.Ident); ok && id.Name == "time" {
					return r.stmts(fmt.Sprintf(`simrt.SleepFor(%s)`, r.node(call.Args[0])))
				}
			}
		}
		if call, ok := x.X.(*ast.CallExpr); ok && len(call.Args) == 1 && !call.Ellipsis.IsValid() {
			// x.Do(f): a sync.Once (decided at run time; anything else named Do is called as written)
			if sel, ok := call.Fun.(*ast.SelectorExpr); ok && sel.Sel.Name == "Do" {
				if _, isCall := sel.X.(*ast.CallExpr); !isCall && !r.isPackageIdent(sel.X) {
					return r.stmts(fmt.Sprintf(`simrt.OnceDo(&%s, %s)`, r.node(sel.X), r.node(call.Args[0])))
				}
			}
		}
		if call, ok := x.X.(*ast.CallExpr); ok && len(call.Args) == 0 {
			if sel, ok := call.Fun.(*ast.SelectorExpr); ok {
				switch sel.Sel.Name {
				case "Wait":
					return r.bracket(x, x.Pos())
				case "Lock", "RLock":
					// x may be a mutex value (addressable field) or a pointer to one: the
					// generic helper takes &x and sorts that out at run time
					if _, isCall := sel.X.(*ast.CallExpr); isCall {
						return r.stmts(fmt.Sprintf(`simrt.%s(%s)`, sel.Sel.Name, r.node(sel.X)))
					}
					return r.stmts(fmt.Sprintf(`simrt.%sAddr(&%s)`, sel.Sel.Name, r.node(sel.X)))
				}
			}
		}
	case *ast.AssignStmt:
		if len(x.Rhs) == 1 {
			if u, ok := x.Rhs[0].(*ast.UnaryExpr); ok && u.Op == token.ARROW {
				return r.bracket(x, x.Pos())
			}
		}
	}
	return []ast.Stmt{s}
}

// isPackageIdent: a bare identifier that names an imported package (pkg.Do(x) is a function call, not a method).
func (r *rw) isPackageIdent(e ast.Expr) bool {
	id, ok := e.(*ast.Ident)
	return ok && id.Obj == nil && r.imports[id.Name]
}

func (r *rw) bracket(s ast.Stmt, pos token.Pos) []ast.Stmt {
	h := fmt.Sprintf("__h%d", r.uniq())
	pre := r.stmts(fmt.Sprintf(`%s := simrt.Block(%q)`, h, r.site(pos)))
	post := r.stmts(fmt.Sprintf(`simrt.Wake(%s)`, h))
	return append(append(pre, s), post...)
}

func (r *rw) rewriteGo(g *ast.GoStmt) []ast.Stmt {
	var b strings.Builder
	u := r.uniq()
	fmt.Fprintf(&b, "{\n__f%d := %s\n", u, r.node(g.Call.Fun))
	var args []string
	for i, a := range g.Call.Args {
		fmt.Fprintf(&b, "__a%d_%d := %s\n", u, i, r.node(a))
		args = append(args, fmt.Sprintf("__a%d_%d", u, i))
	}
	ell := ""
	if g.Call.Ellipsis.IsValid() {
		ell = "..."
	}
	name := r.rel + ":" + r.fn
	if se, ok := g.Call.Fun.(*ast.SelectorExpr); ok {
		name += ">" + se.Sel.Name
	}
	fmt.Fprintf(&b, "simrt.Go(%q, func() { __f%d(%s%s) })\n}", name, u, strings.Join(args, ", "), ell)
	return r.stmts(b.String())
}

func (r *rw) rewriteSelect(sel *ast.SelectStmt) []ast.Stmt {
	site := r.site(sel.Pos())
	type cs struct {
		kind    string // send, recv, default
		lhs     []string
		tok     token.Token
		nLHS    int
		body    []ast.Stmt
		chanTxt string
		valTxt  string
	}
	var cases []cs
	for _, c := range sel.Body.List {
		cc := c.(*ast.CommClause)
		k := cs{body: cc.Body}
		switch comm := cc.Comm.(type) {
		case nil:
			k.kind = "default"
		case *ast.SendStmt:
			k.kind, k.chanTxt, k.valTxt = "send", r.node(comm.Chan), r.node(comm.Value)
		case *ast.ExprStmt:
			u, ok := comm.X.(*ast.UnaryExpr)
			if !ok {
				fail(site, "unsupported receive clause")
			}
			k.kind, k.chanTxt = "recv", r.node(u.X)
		case *ast.AssignStmt:
			u, ok := comm.Rhs[0].(*ast.UnaryExpr)
			if !ok {
				fail(site, "unsupported receive clause")
			}
			k.kind, k.chanTxt = "recv", r.node(u.X)
			k.tok, k.nLHS = comm.Tok, len(comm.Lhs)
			for _, l := range comm.Lhs {
				k.lhs = append(k.lhs, r.node(l))
			}
		default:
			fail(site, fmt.Sprintf("unsupported comm clause %T", comm))
		}
		cases = append(cases, k)
	}
	var b strings.Builder
	b.WriteString("{\n")
	def := -1
	nonDefault := 0
	for i, k := range cases {
		switch k.kind {
		case "default":
			def = i
		case "send":
			nonDefault++
			fmt.Fprintf(&b, "__c%d := %s\n__v%d := simrt.SendVal(__c%d, %s)\n", i, k.chanTxt, i, i, k.valTxt)
		case "recv":
			nonDefault++
			fmt.Fprintf(&b, "__c%d := %s\n", i, k.chanTxt)
			if k.nLHS > 0 {
				fmt.Fprintf(&b, "__r%d, __ok%d := simrt.ZeroOf(__c%d)\n_, _ = __r%d, __ok%d\n", i, i, i, i, i)
			}
		}
	}
	comm := func(i int, k cs) string {
		switch {
		case k.kind == "send":
			return fmt.Sprintf("__c%d <- __v%d", i, i)
		case k.nLHS == 0:
			return fmt.Sprintf("<-__c%d", i)
		case k.nLHS == 1:
			return fmt.Sprintf("__r%d = <-__c%d", i, i)
		default:
			return fmt.Sprintf("__r%d, __ok%d = <-__c%d", i, i, i)
		}
	}
	n := len(cases)
	b.WriteString("__i := -1\n")
	if nonDefault > 0 {
		fmt.Fprintf(&b, "if __s := simrt.SelectStart(%q, %d); __s >= 0 {\nfor __j := 0; __j < %d && __i < 0; __j++ {\nswitch (__s + __j) %% %d {\n", site, n, n, n)
		for i, k := range cases {
			if k.kind == "default" {
				continue
			}
			fmt.Fprintf(&b, "case %d:\nselect {\ncase %s:\n__i = %d\ndefault:\n}\n", i, comm(i, k), i)
		}
		b.WriteString("}\n}\n}\n")
	}
	b.WriteString("if __i < 0 {\n")
	if def >= 0 && nonDefault > 0 {
		// nothing was ready under the simulation (or no simulation): the original non-blocking select
		b.WriteString("select {\n")
		for i, k := range cases {
			if k.kind == "default" {
				fmt.Fprintf(&b, "default:\n__i = %d\n", i)
			} else {
				fmt.Fprintf(&b, "case %s:\n__i = %d\n", comm(i, k), i)
			}
		}
		b.WriteString("}\n")
	} else if def >= 0 {
		fmt.Fprintf(&b, "__i = %d\n", def)
	} else {
		fmt.Fprintf(&b, "__h := simrt.Block(%q)\nselect {\n", site)
		for i, k := range cases {
			fmt.Fprintf(&b, "case %s:\n__i = %d\n", comm(i, k), i)
		}
		b.WriteString("}\nsimrt.Wake(__h)\n")
	}
	b.WriteString("}\nswitch __i {\n")
	for i, k := range cases {
		fmt.Fprintf(&b, "case %d:\n", i)
		if k.nLHS > 0 {
			rhs := fmt.Sprintf("__r%d", i)
			if k.nLHS == 2 {
				rhs += fmt.Sprintf(", __ok%d", i)
			}
			fmt.Fprintf(&b, "%s %s %s\n", strings.Join(k.lhs, ", "), k.tok, rhs)
		}
		fmt.Fprintf(&b, "__BODY%d__()\n", i)
	}
	b.WriteString("default:\npanic(\"simrt: no select case chosen\")\n}\n}")
	st := r.stmts(b.String())
	// splice the original bodies in
	ast.Inspect(st[0], func(nd ast.Node) bool {
		cc, ok := nd.(*ast.CaseClause)
		if !ok {
			return true
		}
		for j, s := range cc.Body {
			es, ok := s.(*ast.ExprStmt)
			if !ok {
				continue
			}
			call, ok := es.X.(*ast.CallExpr)
			if !ok {
				continue
			}
			id, ok := call.Fun.(*ast.Ident)
			if !ok || !strings.HasPrefix(id.Name, "__BODY") {
				continue
			}
			var idx int
			fmt.Sscanf(id.Name, "__BODY%d__", &idx)
			nb := append([]ast.Stmt{}, cc.Body[:j]...)
			nb = append(nb, cases[idx].body...)
			cc.Body = nb
			break
		}
		return true
	})
	return st
}

func (r *rw) node(e ast.Node) string {
	var buf bytes.Buffer
	if err := printer.Fprint(&buf, r.fset, e); err != nil {
		fail(err)
	}
	return buf.String()
}

// stmts parses a snippet into position-free statements.
func (r *rw) stmts(src string) []ast.Stmt {
	f, err := parser.ParseFile(token.NewFileSet(), "", "package p\nfunc _() {\n"+src+"\n}", 0)
	if err != nil {
		fail(fmt.Sprintf("snippet: %v\n%s", err, src))
	}
	body := f.Decls[0].(*ast.FuncDecl).Body
	clearPos(reflect.ValueOf(body))
	return body.List
}

func parseDecl(src string) ast.Decl {
	f, err := parser.ParseFile(token.NewFileSet(), "", "package p\n"+src, 0)
	if err != nil {
		fail(err)
	}
	clearPos(reflect.ValueOf(f.Decls[0]))
	return f.Decls[0]
}

var posType = reflect.TypeOf(token.NoPos)

func clearPos(v reflect.Value) {
	switch v.Kind() {
	case reflect.Pointer, reflect.Interface:
		if !v.IsNil() {
			clearPos(v.Elem())
		}
	case reflect.Struct:
		if v.Type() == reflect.TypeOf(ast.Object{}) || v.Type() == reflect.TypeOf(ast.Scope{}) {
			return
		}
		for i := 0; i < v.NumField(); i++ {
			f := v.Field(i)
			if f.Type() == posType {
				if f.CanSet() {
					// some positions double as flags (Ellipsis, Lparen of GenDecl, Arrow, Assign): keep validity
					switch v.Type().Field(i).Name {
					case "Ellipsis", "Lparen", "Rparen", "Arrow", "Assign", "Lbrack", "Rbrack":
						if f.Int() != 0 {
							f.SetInt(1)
						}
					default:
						f.SetInt(0)
					}
				}
				continue
			}
			clearPos(f)
		}
	case reflect.Slice:
		for i := 0; i < v.Len(); i++ {
			clearPos(v.Index(i))
		}
	}
}

func addImport(f *ast.File, name, path string) {
	spec := &ast.ImportSpec{Name: ast.NewIdent(name), Path: &ast.BasicLit{Kind: token.STRING, Value: fmt.Sprintf("%q", path)}}
	gd := &ast.GenDecl{Tok: token.IMPORT, Specs: []ast.Spec{spec}}
	f.Decls = append([]ast.Decl{gd}, f.Decls...)
	f.Imports = append(f.Imports, spec)
}

// ---------------------------------------------------------------- normalisation
//
// Channel receives can hide anywhere an expression is allowed (`return <-ch`, `f(<-ch)`,
// `if v := <-ch; ...`, `for v := range ch`). Before the statement-level rewrite every such
// receive is turned into a statement of its own (`__rvN := <-ch`), which the rewrite then
// brackets with Block/Wake like any other receive statement.

// chanFields: names of struct fields declared with a channel type anywhere in the rewritten files.
var chanFields = map[string]bool{}

func collectChanFields(f *ast.File) {
	ast.Inspect(f, func(n ast.Node) bool {
		st, ok := n.(*ast.StructType)
		if !ok || st.Fields == nil {
			return true
		}
		for _, fld := range st.Fields.List {
			if _, ok := fld.Type.(*ast.ChanType); ok {
				for _, nm := range fld.Names {
					chanFields[nm.Name] = true
				}
			}
		}
		return true
	})
}

func collectChanIdents(fd *ast.FuncDecl, out map[string]bool) {
	addFields := func(fl *ast.FieldList) {
		if fl == nil {
			return
		}
		for _, f := range fl.List {
			if _, ok := f.Type.(*ast.ChanType); ok {
				for _, nm := range f.Names {
					out[nm.Name] = true
				}
			}
		}
	}
	addFields(fd.Type.Params)
	addFields(fd.Recv)
	ast.Inspect(fd, func(n ast.Node) bool {
		switch x := n.(type) {
		case *ast.FuncLit:
			addFields(x.Type.Params)
		case *ast.AssignStmt:
			for i, rhs := range x.Rhs {
				if i >= len(x.Lhs) {
					break
				}
				id, ok := x.Lhs[i].(*ast.Ident)
				if !ok {
					continue
				}
				if call, ok := rhs.(*ast.CallExpr); ok {
					if fn, ok := call.Fun.(*ast.Ident); ok && fn.Name == "make" && len(call.Args) > 0 {
						if _, ok := call.Args[0].(*ast.ChanType); ok {
							out[id.Name] = true
						}
					}
				}
			}
		case *ast.ValueSpec:
			if _, ok := x.Type.(*ast.ChanType); ok {
				for _, nm := range x.Names {
					out[nm.Name] = true
				}
			}
		}
		return true
	})
}

func (r *rw) isChanExpr(e ast.Expr) bool {
	switch x := e.(type) {
	case *ast.Ident:
		return r.chanIdents[x.Name]
	case *ast.SelectorExpr:
		return chanFields[x.Sel.Name]
	case *ast.ParenExpr:
		return r.isChanExpr(x.X)
	case *ast.CallExpr:
		if se, ok := x.Fun.(*ast.SelectorExpr); ok && se.Sel.Name == "Done" && len(x.Args) == 0 {
			return true
		}
	}
	return false
}

func isRecv(e ast.Expr) bool {
	u, ok := e.(*ast.UnaryExpr)
	return ok && u.Op == token.ARROW
}

// containsRecv reports whether a receive occurs in e outside function literals.
func containsRecv(n ast.Node) bool {
	found := false
	if n == nil || reflect.ValueOf(n).IsNil() {
		return false
	}
	ast.Inspect(n, func(m ast.Node) bool {
		if _, ok := m.(*ast.FuncLit); ok {
			return false
		}
		if e, ok := m.(ast.Expr); ok && isRecv(e) {
			found = true
		}
		return !found
	})
	return found
}

// hoist replaces every receive inside *e (outside function literals) by a fresh identifier and
// returns the statements that perform the receives, in evaluation order.
func (r *rw) hoist(e *ast.Expr) []ast.Stmt {
	var pre []ast.Stmt
	var walk func(p *ast.Expr)
	walk = func(p *ast.Expr) {
		if *p == nil {
			return
		}
		switch x := (*p).(type) {
		case *ast.FuncLit:
			return
		case *ast.UnaryExpr:
			walk(&x.X)
			if x.Op == token.ARROW {
				name := fmt.Sprintf("__rv%d", r.uniq())
				pre = append(pre, r.stmts(fmt.Sprintf("%s := <-%s", name, r.node(x.X)))...)
				*p = ast.NewIdent(name)
			}
		case *ast.BinaryExpr:
			walk(&x.X)
			walk(&x.Y)
		case *ast.CallExpr:
			walk(&x.Fun)
			for i := range x.Args {
				walk(&x.Args[i])
			}
		case *ast.ParenExpr:
			walk(&x.X)
		case *ast.SelectorExpr:
			walk(&x.X)
		case *ast.IndexExpr:
			walk(&x.X)
			walk(&x.Index)
		case *ast.SliceExpr:
			walk(&x.X)
			walk(&x.Low)
			walk(&x.High)
			walk(&x.Max)
		case *ast.StarExpr:
			walk(&x.X)
		case *ast.TypeAssertExpr:
			walk(&x.X)
		case *ast.KeyValueExpr:
			walk(&x.Value)
		case *ast.CompositeLit:
			for i := range x.Elts {
				walk(&x.Elts[i])
			}
		}
	}
	walk(e)
	return pre
}

// normalizeTree rewrites every statement list below root so that receives are statements.
func (r *rw) normalizeTree(root ast.Node) {
	var lists []*[]ast.Stmt
	ast.Inspect(root, func(n ast.Node) bool {
		switch x := n.(type) {
		case *ast.BlockStmt:
			lists = append(lists, &x.List)
		case *ast.CaseClause:
			lists = append(lists, &x.Body)
		case *ast.CommClause:
			lists = append(lists, &x.Body)
		}
		return true
	})
	for i := len(lists) - 1; i >= 0; i-- {
		var out []ast.Stmt
		for _, s := range *lists[i] {
			out = append(out, r.normalizeStmt(s)...)
		}
		*lists[i] = out
	}
}

func (r *rw) normalizeStmt(s ast.Stmt) []ast.Stmt {
	switch x := s.(type) {
	case *ast.LabeledStmt:
		inner := r.normalizeStmt(x.Stmt)
		if len(inner) == 1 {
			x.Stmt = inner[0]
			return []ast.Stmt{x}
		}
		// the hoisted receives go in front of the label's statement; the label keeps naming the statement itself
		x.Stmt = inner[len(inner)-1]
		return append(inner[:len(inner)-1], x)
	case *ast.ReturnStmt:
		var pre []ast.Stmt
		for i := range x.Results {
			pre = append(pre, r.hoist(&x.Results[i])...)
		}
		return append(pre, s)
	case *ast.ExprStmt:
		if isRecv(x.X) {
			return []ast.Stmt{s}
		}
		return append(r.hoist(&x.X), s)
	case *ast.AssignStmt:
		if len(x.Rhs) == 1 && isRecv(x.Rhs[0]) {
			u := x.Rhs[0].(*ast.UnaryExpr)
			return append(r.hoist(&u.X), s)
		}
		var pre []ast.Stmt
		for i := range x.Rhs {
			pre = append(pre, r.hoist(&x.Rhs[i])...)
		}
		return append(pre, s)
	case *ast.SendStmt:
		pre := r.hoist(&x.Chan)
		pre = append(pre, r.hoist(&x.Value)...)
		return append(pre, s)
	case *ast.DeferStmt:
		var pre []ast.Stmt
		for i := range x.Call.Args {
			pre = append(pre, r.hoist(&x.Call.Args[i])...)
		}
		return append(pre, s)
	case *ast.GoStmt:
		var pre []ast.Stmt
		for i := range x.Call.Args {
			pre = append(pre, r.hoist(&x.Call.Args[i])...)
		}
		return append(pre, s)
	case *ast.DeclStmt:
		if gd, ok := x.Decl.(*ast.GenDecl); ok {
			var pre []ast.Stmt
			for _, sp := range gd.Specs {
				if vs, ok := sp.(*ast.ValueSpec); ok {
					for i := range vs.Values {
						pre = append(pre, r.hoist(&vs.Values[i])...)
					}
				}
			}
			return append(pre, s)
		}
	case *ast.IfStmt:
		return r.normalizeIf(x)
	case *ast.SwitchStmt:
		if x.Init != nil && containsRecv(x.Init) {
			init := x.Init
			x.Init = nil
			pre := r.normalizeStmt(init)
			pre = append(pre, r.hoist(&x.Tag)...)
			return []ast.Stmt{&ast.BlockStmt{List: append(pre, x)}}
		}
		if x.Tag != nil {
			return append(r.hoist(&x.Tag), s)
		}
	case *ast.TypeSwitchStmt:
		if x.Init != nil && containsRecv(x.Init) {
			init := x.Init
			x.Init = nil
			return []ast.Stmt{&ast.BlockStmt{List: append(r.normalizeStmt(init), x)}}
		}
		if containsRecv(x.Assign) {
			fail(r.site(s.Pos()), "receive inside a type switch guard is not supported")
		}
	case *ast.ForStmt:
		if x.Init != nil && containsRecv(x.Init) {
			init := x.Init
			x.Init = nil
			if containsRecv(x.Cond) || containsRecv(x.Post) {
				fail(r.site(s.Pos()), "receive inside a for condition/post statement is not supported")
			}
			return []ast.Stmt{&ast.BlockStmt{List: append(r.normalizeStmt(init), x)}}
		}
		if containsRecv(x.Cond) || containsRecv(x.Post) {
			fail(r.site(s.Pos()), "receive inside a for condition/post statement is not supported")
		}
	case *ast.RangeStmt:
		if r.isChanExpr(x.X) {
			return r.rangeOverChan(x)
		}
		return append(r.hoist(&x.X), s)
	}
	return []ast.Stmt{s}
}

func (r *rw) normalizeIf(x *ast.IfStmt) []ast.Stmt {
	// else-if chains first (innermost), so that their own init/cond receives get their own block
	if ei, ok := x.Else.(*ast.IfStmt); ok && (containsRecv(ei.Init) || containsRecv(ei.Cond)) {
		x.Else = &ast.BlockStmt{List: r.normalizeIf(ei)}
	} else if ei, ok := x.Else.(*ast.IfStmt); ok {
		r.normalizeIf(ei)
	}
	var pre []ast.Stmt
	if x.Init != nil && containsRecv(x.Init) {
		init := x.Init
		x.Init = nil
		pre = append(pre, r.normalizeStmt(init)...)
		pre = append(pre, r.hoist(&x.Cond)...)
		return []ast.Stmt{&ast.BlockStmt{List: append(pre, x)}}
	}
	if containsRecv(x.Cond) {
		if x.Init != nil {
			init := x.Init
			x.Init = nil
			pre = append(pre, init)
			pre = append(pre, r.hoist(&x.Cond)...)
			return []ast.Stmt{&ast.BlockStmt{List: append(pre, x)}}
		}
		return append(r.hoist(&x.Cond), x)
	}
	return []ast.Stmt{x}
}

// rangeOverChan turns `for v := range ch { body }` into an explicit receive loop.
func (r *rw) rangeOverChan(x *ast.RangeStmt) []ast.Stmt {
	ch := fmt.Sprintf("__ch%d", r.uniq())
	okv := fmt.Sprintf("__ok%d", r.uniq())
	recv := ""
	switch {
	case x.Key == nil:
		recv = fmt.Sprintf("_, %s := <-%s", okv, ch)
	case x.Tok == token.DEFINE:
		recv = fmt.Sprintf("%s, %s := <-%s", r.node(x.Key), okv, ch)
	default:
		recv = fmt.Sprintf("var %s bool\n%s, %s = <-%s", okv, r.node(x.Key), okv, ch)
	}
	src := fmt.Sprintf("%s := %s\nfor {\n%s\nif !%s {\nbreak\n}\n__RANGEBODY__()\n}", ch, r.node(x.X), recv, okv)
	src = strings.ReplaceAll(src, "\\n", "\n")
	st := r.stmts(src)
	loop := st[len(st)-1].(*ast.ForStmt)
	var body []ast.Stmt
	for _, bs := range loop.Body.List {
		if es, ok := bs.(*ast.ExprStmt); ok {
			if call, ok := es.X.(*ast.CallExpr); ok {
				if id, ok := call.Fun.(*ast.Ident); ok && id.Name == "__RANGEBODY__" {
					body = append(body, x.Body.List...)
					continue
				}
			}
		}
		body = append(body, bs)
	}
	loop.Body.List = body
	// not wrapped in a block: a label in front of the range statement must end up on the loop itself
	return st
}

func parseForTest(raw []byte) (*ast.File, error) {
	return parser.ParseFile(token.NewFileSet(), "x.go", raw, 0)
}
