package main

import (
	"os"
	"os/exec"
	"path/filepath"
	"strings"
	"testing"
)

// TestConstructs rewrites testdata/constructs.go.txt as if it were a file of the repository, then
// compiles and runs it in a scratch module twice: in pass-through mode and under a simulation with
// preemptions. Both must print the same trace as the original, un-rewritten file.
func TestConstructs(t *testing.T) {
	raw, err := os.ReadFile("testdata/constructs.go.txt")
	if err != nil {
		t.Fatal(err)
	}
	dir := t.TempDir()
	must := func(err error) {
		if err != nil {
			t.Fatal(err)
		}
	}
	must(os.MkdirAll(filepath.Join(dir, "orig"), 0o755))
	must(os.MkdirAll(filepath.Join(dir, "rewritten"), 0o755))
	must(os.WriteFile(filepath.Join(dir, "orig", "c.go"), []byte(strings.Replace(string(raw), "package constructs", "package orig", 1)), 0o644))
	collectChanFieldsFromSource(t, raw)
	src, err := rewriteFile("constructs.go", "x/constructs.go", raw, "sched")
	if err != nil {
		t.Fatalf("rewrite: %v\n%s", err, src)
	}
	must(os.WriteFile(filepath.Join(dir, "rewritten", "c.go"), []byte(strings.Replace(string(src), "package constructs", "package rewritten", 1)), 0o644))
	simrt, _ := filepath.Abs("../simrt")
	must(os.WriteFile(filepath.Join(dir, "go.mod"), []byte("module scratch\n\ngo 1.26.8\n\nrequire kmipverif v0.0.0\n\nreplace kmipverif => "+filepath.Dir(simrt)+"\n"), 0o644))
	must(os.WriteFile(filepath.Join(dir, "main_test.go"), []byte(`package scratch

import (
	"strings"
	"testing"
	"testing/synctest"

	"kmipverif/simrt"
	"scratch/orig"
	"scratch/rewritten"
)

func TestSame(t *testing.T) {
	want := strings.Join(orig.Run(), "\n")
	if got := strings.Join(rewritten.Run(), "\n"); got != want {
		t.Fatalf("pass-through differs:\n%s\n--- want\n%s", got, want)
	}
	for seed := uint64(1); seed <= 40; seed++ {
		var got string
		synctest.Test(t, func(t *testing.T) {
			s := simrt.New(simrt.Config{PreemptP: 0.2, PreSeed: seed, IdleProbe: 0}, simrt.NewTape(seed))
			defer s.Close()
			s.Spawn("main", func() { got = strings.Join(rewritten.Run(), "\n") })
			res := s.Run()
			if len(res.Foreign) > 0 || len(res.Panics) > 0 {
				t.Fatalf("seed %d: foreign=%v panics=%v", seed, res.Foreign, res.Panics)
			}
		})
		if got != want {
			t.Fatalf("seed %d: under simulation:\n%s\n--- want\n%s", seed, got, want)
		}
	}
}
`), 0o644))
	cmd := exec.Command("go1.26.8", "test", "-vet=off", "-count=1", "./...")
	cmd.Dir = dir
	cmd.Env = append(os.Environ(), "GOFLAGS=-mod=mod", "GOPROXY=off", "GOSUMDB=off", "GOTOOLCHAIN=local")
	out, err := cmd.CombinedOutput()
	if err != nil {
		t.Fatalf("%v\n%s\n---- rewritten source ----\n%s", err, out, src)
	}
}

func collectChanFieldsFromSource(t *testing.T, raw []byte) {
	f, err := parseForTest(raw)
	if err != nil {
		t.Fatal(err)
	}
	collectChanFields(f)
}
