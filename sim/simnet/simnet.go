// Package simnet is the only network the simulated code sees: in-memory
// net.Listener / net.Conn whose every blocking operation is a simulator wait
// and whose segmentation and faults are decided on the run's choice tape.
package simnet

import (
	"context"
	"errors"
	"fmt"
	"io"
	"net"
	"os"
	"syscall"
	"time"

	"kmipverif/simrt"
)

// Chunk policies for Read.
const (
	ChunkMax    = iota // as many bytes as available and fit
	ChunkRandom        // tape-chosen 1..max, biased towards the extremes
	ChunkByte          // always one byte
)

// FaultAt plans one fault at the Op-th I/O operation (1-based, reads and
// writes counted together) of an endpoint.
type FaultAt struct {
	Op   int    `json:"op"`
	Kind string `json:"kind"`
}

// EP configures one endpoint of a connection.
type EP struct {
	Chunk      int            `json:"chunk,omitempty"`
	Plan       []FaultAt      `json:"plan,omitempty"`
	Rates      map[string]int `json:"rates,omitempty"` // kind -> per-mille probability at each eligible op
	DataEOF    bool           `json:"data_eof,omitempty"`
	WriteYield bool           `json:"write_yield,omitempty"`
	// WriteLate: a Write that was accepted returns late: only once the peer has answered something and closed and
	// this side's reader has taken all of it (or after 300 ms of simulated time). The bytes were delivered at once;
	// when the call returns is the transport's business
	WriteLate bool `json:"write_late,omitempty"`
	// WriteLateAlways: also while the harness says "quiet" (no injected faults): lateness is not a fault
	WriteLateAlways bool `json:"write_late_always,omitempty"`
	Capacity        int  `json:"capacity,omitempty"` // bytes the outgoing queue accepts before Write blocks; 0 = unbounded
}

type half struct {
	buf     []byte
	wclosed bool // writer closed: EOF after drain
	reset   bool // reader gets ECONNRESET
	rclosed bool // reader went away: writes fail
}

// Conn is one endpoint.
type Conn struct {
	lingerSet bool
	linger    int
	S         *simrt.Sim
	Name      string
	EP        EP
	rd        *half
	wr        *half
	local     bool // closed locally
	dead      error
	peer      *Conn

	Ops        int
	Reads      int
	Writes     int
	BytesRead  int
	MaxReadLen int
	OnWrite    func(p []byte) // called for every Write call, before any fault
	OnRead     func(n int)
	Quiet      func() bool // when it returns true no planned or random fault is injected
	Faulted    bool        // an injected terminal fault (reset, eof, epipe, closed, short-write) fired on this endpoint

	rdDeadline, wrDeadline time.Time
}

func sysErr(op string, errno syscall.Errno) error {
	return &net.OpError{Op: op, Net: "sim", Err: os.NewSyscallError(op, errno)}
}
func closedErr(op string) error { return &net.OpError{Op: op, Net: "sim", Err: net.ErrClosed} }

// Pipe creates a connected pair (a = dialling side, b = accepting side).
func Pipe(s *simrt.Sim, name string, epA, epB EP) (*Conn, *Conn) {
	a2b, b2a := &half{}, &half{}
	a := &Conn{S: s, Name: name + ".c", EP: epA, rd: b2a, wr: a2b}
	b := &Conn{S: s, Name: name + ".s", EP: epB, rd: a2b, wr: b2a}
	a.peer, b.peer = b, a
	return a, b
}

func (c *Conn) planned(op int) string {
	if c.Quiet != nil && c.Quiet() {
		return ""
	}
	for _, f := range c.EP.Plan {
		if f.Op == op {
			return f.Kind
		}
	}
	return ""
}

func (c *Conn) rate(kind string) bool {
	pm := c.EP.Rates[kind]
	if pm <= 0 || (c.Quiet != nil && c.Quiet()) {
		return false
	}
	return c.S.Chance(pm, 1000)
}

// kill makes the connection unusable from this side with err, and lets the peer see how.
func (c *Conn) kill(err error, peerReset bool) {
	c.dead = err
	c.Faulted = true
	c.wr.wclosed = true
	c.rd.rclosed = true
	if peerReset {
		c.wr.reset = true
		c.wr.buf = nil
	}
}

// Pending reports how many bytes are queued towards this endpoint.
func (c *Conn) Pending() int { return len(c.rd.buf) }

// PeerGone reports whether the other side has closed or the connection died.
func (c *Conn) PeerGone() bool { return c.rd.wclosed || c.rd.reset }

func (c *Conn) Read(p []byte) (int, error) {
	c.Ops++
	c.Reads++
	if len(p) > c.MaxReadLen {
		c.MaxReadLen = len(p)
	}
	if c.local {
		return 0, closedErr("read")
	}
	if c.dead != nil {
		return 0, c.dead
	}
	kind := c.planned(c.Ops)
	if kind == "" {
		for _, k := range []string{"reset", "eof", "stall"} {
			if c.rate(k) {
				kind = k
				break
			}
		}
	}
	switch kind {
	case "reset":
		c.S.Fault("reset")
		c.kill(sysErr("read", syscall.ECONNRESET), true)
		return 0, c.dead
	case "eof":
		// the peer vanished here: nothing more will ever arrive
		c.S.Fault("eof")
		c.Faulted = true
		c.rd.buf = nil
		c.rd.wclosed = true
		c.wr.rclosed = true
		c.peer.dead = sysErr("write", syscall.EPIPE)
	case "closed":
		c.S.Fault("closed")
		c.Faulted = true
		_ = c.Close()
		return 0, closedErr("read")
	case "stall":
		c.S.Fault("stall")
		c.S.Sleep(time.Duration(1+c.S.Choose(20, "stall")) * 100 * time.Millisecond)
	}
	if len(p) == 0 {
		return 0, nil
	}
	c.S.WaitUntil("read:"+c.Name, func() bool {
		return len(c.rd.buf) > 0 || c.rd.wclosed || c.rd.reset || c.local || c.dead != nil || expired(c.rdDeadline)
	})
	if c.local {
		return 0, closedErr("read")
	}
	if len(c.rd.buf) == 0 && !c.rd.wclosed && !c.rd.reset && c.dead == nil && expired(c.rdDeadline) {
		c.S.Fault("read-deadline")
		return 0, timeoutErr{"read"}
	}
	if c.dead != nil {
		return 0, c.dead
	}
	if c.rd.reset {
		c.kill(sysErr("read", syscall.ECONNRESET), false)
		return 0, c.dead
	}
	if len(c.rd.buf) == 0 {
		return 0, io.EOF
	}
	max := len(p)
	if max > len(c.rd.buf) {
		max = len(c.rd.buf)
	}
	n := max
	switch c.EP.Chunk {
	case ChunkByte:
		n = 1
	case ChunkRandom:
		if max > 1 {
			switch c.S.Choose(4, "chunk-mode") {
			case 0: // everything
			case 1:
				n = 1
				c.S.Faults["chunk"]++
			default:
				n = 1 + c.S.Choose(max, "chunk")
				if n < max {
					c.S.Faults["chunk"]++
				}
			}
		}
	}
	copy(p, c.rd.buf[:n])
	c.rd.buf = c.rd.buf[n:]
	c.BytesRead += n
	if c.OnRead != nil {
		c.OnRead(n)
	}
	if c.EP.DataEOF && len(c.rd.buf) == 0 && c.rd.wclosed {
		c.S.Fault("data+eof")
		return n, io.EOF
	}
	return n, nil
}

func (c *Conn) Write(p []byte) (int, error) {
	c.Ops++
	c.Writes++
	if c.OnWrite != nil {
		c.OnWrite(p)
	}
	if c.EP.WriteYield {
		c.S.YieldNow("write:" + c.Name)
	}
	if c.local {
		return 0, closedErr("write")
	}
	if c.dead != nil {
		return 0, c.dead
	}
	kind := c.planned(c.Ops)
	if kind == "" {
		for _, k := range []string{"reset", "epipe", "short-write", "stall"} {
			if c.rate(k) {
				kind = k
				break
			}
		}
	}
	switch kind {
	case "reset":
		c.S.Fault("reset")
		c.kill(sysErr("write", syscall.ECONNRESET), true)
		return 0, c.dead
	case "epipe", "eof":
		c.S.Fault("epipe")
		c.kill(sysErr("write", syscall.EPIPE), true)
		return 0, c.dead
	case "closed":
		c.S.Fault("closed")
		c.Faulted = true
		_ = c.Close()
		return 0, closedErr("write")
	case "short-write":
		if len(p) > 1 {
			c.S.Fault("short-write")
			n := 1 + c.S.Choose(len(p)-1, "short")
			c.wr.buf = append(c.wr.buf, p[:n]...)
			c.kill(sysErr("write", syscall.ECONNRESET), false)
			return n, c.dead
		}
	case "stall":
		c.S.Fault("stall")
		c.S.Sleep(time.Duration(1+c.S.Choose(20, "stall")) * 100 * time.Millisecond)
	}
	if c.wr.rclosed {
		// the peer is gone: a real kernel accepts the first write and fails later ones
		switch c.S.Choose(3, "write-to-closed") {
		case 0:
			return len(p), nil
		case 1:
			c.kill(sysErr("write", syscall.EPIPE), false)
		default:
			c.kill(sysErr("write", syscall.ECONNRESET), false)
		}
		return 0, c.dead
	}
	if c.EP.Capacity > 0 && len(c.wr.buf) > 0 && len(c.wr.buf)+len(p) > c.EP.Capacity {
		c.S.Faults["backpressure"]++
		c.S.WaitUntil("write-full:"+c.Name, func() bool {
			return len(c.wr.buf) == 0 || len(c.wr.buf)+len(p) <= c.EP.Capacity || c.wr.rclosed || c.local || c.dead != nil || expired(c.wrDeadline)
		})
		if c.local {
			return 0, closedErr("write")
		}
		if expired(c.wrDeadline) && c.dead == nil && !c.wr.rclosed && !(len(c.wr.buf) == 0 || len(c.wr.buf)+len(p) <= c.EP.Capacity) {
			c.S.Fault("write-deadline")
			return 0, timeoutErr{"write"}
		}
		if c.dead != nil {
			return 0, c.dead
		}
		if c.wr.rclosed {
			c.kill(sysErr("write", syscall.EPIPE), false)
			return 0, c.dead
		}
	}
	if expired(c.wrDeadline) {
		c.S.Fault("write-deadline")
		return 0, timeoutErr{"write"}
	}
	c.wr.buf = append(c.wr.buf, p...)
	if c.EP.WriteLate && (c.Quiet == nil || !c.Quiet() || c.EP.WriteLateAlways) {
		dl := time.Now().Add(300 * time.Millisecond)
		c.S.Deadline(dl)
		c.S.WaitUntil("write-returns-late", func() bool {
			return c.rd.wclosed && len(c.rd.buf) == 0 || c.local || !time.Now().Before(dl)
		})
		for i := 0; i < 3; i++ {
			c.S.YieldNow("write-returns-late")
		}
	}
	return len(p), nil
}

// Close closes this endpoint: the peer reads EOF after draining, its writes fail.
func (c *Conn) Close() error {
	if c.local {
		return closedErr("close")
	}
	c.local = true
	c.wr.wclosed = true
	c.rd.rclosed = true
	if c.lingerSet && c.linger == 0 {
		// SO_LINGER with a zero timeout: close aborts the connection. What the peer has not consumed yet is discarded
		// and its next read fails with ECONNRESET (simnet has no kernel buffers: "sent" and "consumed by the peer"
		// are the only two states, so everything not yet read counts as unsent)
		if len(c.wr.buf) > 0 {
			c.S.Fault("linger0-close-discards-unread-data")
		}
		c.wr.reset = true
		c.wr.buf = nil
	}
	return nil
}

// ClientHello is what a simulated TLS client sends first; a server-side handshake waits for exactly these bytes.
const ClientHello = "CHLO"

// SimHandshake plays the server side of a TLS handshake on this endpoint (simrt.TLSConn calls it): it waits for the
// client hello, as long as it takes unless the read deadline, the context or the end of the connection interrupts it.
// A context that ends interrupts the handshake by closing the connection, like crypto/tls does.
func (c *Conn) SimHandshake(ctx context.Context) error {
	var got []byte
	for len(got) < len(ClientHello) {
		c.S.WaitUntil("tls-handshake", func() bool {
			return len(c.rd.buf) > 0 || c.rd.wclosed || c.rd.reset || c.local || c.dead != nil || ctx.Err() != nil || expired(c.rdDeadline)
		})
		if err := ctx.Err(); err != nil && len(c.rd.buf) == 0 {
			_ = c.Close()
			return err
		}
		buf := make([]byte, len(ClientHello)-len(got))
		n, err := c.Read(buf)
		got = append(got, buf[:n]...)
		if err != nil {
			return err
		}
	}
	if string(got) != ClientHello {
		return errors.New("tls: first record does not look like a TLS handshake")
	}
	return nil
}

// SockOpt receives the socket options set through simrt.TCPConn.
func (c *Conn) SockOpt(name string, v int) error {
	if c.local {
		return closedErr("setsockopt")
	}
	if name == "linger" {
		c.lingerSet, c.linger = v >= 0, v
	}
	return nil
}

// CloseWrite half-closes (the peer reads EOF after draining, we can still read).
func (c *Conn) CloseWrite() error {
	c.wr.wclosed = true
	return nil
}

// Reset closes abortively: the peer's reads fail with ECONNRESET and queued data is lost.
func (c *Conn) Reset() {
	c.local = true
	c.wr.wclosed = true
	c.wr.reset = true
	c.wr.buf = nil
	c.rd.rclosed = true
}

func (c *Conn) Closed() bool { return c.local }

type Addr string

func (a Addr) Network() string { return "sim" }
func (a Addr) String() string  { return string(a) }

func (c *Conn) LocalAddr() net.Addr  { return Addr(c.Name) }
func (c *Conn) RemoteAddr() net.Addr { return Addr(c.Name + ".peer") }

// Deadlines are honoured on the simulated clock: a Read that finds no data (or a Write that finds no room) when its
// deadline has passed fails with a timeout error, like a real connection; a zero time clears the deadline.
func (c *Conn) SetDeadline(t time.Time) error {
	_ = c.SetReadDeadline(t)
	return c.SetWriteDeadline(t)
}

func (c *Conn) SetReadDeadline(t time.Time) error {
	c.rdDeadline = t
	if !t.IsZero() {
		c.S.Deadline(t)
	}
	return nil
}

func (c *Conn) SetWriteDeadline(t time.Time) error {
	c.wrDeadline = t
	if !t.IsZero() {
		c.S.Deadline(t)
	}
	return nil
}

func expired(t time.Time) bool { return !t.IsZero() && !time.Now().Before(t) }

type timeoutErr struct{ op string }

func (e timeoutErr) Error() string   { return e.op + " sim: i/o timeout" }
func (e timeoutErr) Timeout() bool   { return true }
func (e timeoutErr) Temporary() bool { return true }
func (e timeoutErr) Unwrap() error   { return os.ErrDeadlineExceeded }

// Listener is a simulated net.Listener.
type Listener struct {
	S          *simrt.Sim
	q          []*Conn
	closed     bool
	AcceptLate int // per-mille probability that Accept, having dequeued a connection, returns only after other tasks ran
	ServerEP   func(name string) EP
	Accepted   int
	Dials      int
	conns      []*Conn // server-side endpoints, in dial order
	// TLS: accepted connections are handed out as (simulated) TLS connections: the server side of each waits for the
	// client hello before anything else (see SimHandshake)
	TLS bool
}

// ServerConns returns the server-side endpoints of every connection dialled so far.
func (l *Listener) ServerConns() []*Conn { return l.conns }

func NewListener(s *simrt.Sim) *Listener { return &Listener{S: s} }

func (l *Listener) Accept() (net.Conn, error) {
	l.S.WaitUntil("accept", func() bool { return len(l.q) > 0 || l.closed })
	if l.closed {
		return nil, &net.OpError{Op: "accept", Net: "sim", Err: net.ErrClosed}
	}
	c := l.q[0]
	l.q = l.q[1:]
	l.Accepted++
	if l.AcceptLate > 0 && l.S.Chance(l.AcceptLate, 1000) {
		l.S.Fault("accept-late")
		l.S.YieldNow("accept-late")
	}
	if l.TLS {
		return &simrt.TLSConn{Conn: &simrt.TCPConn{Conn: c}}, nil
	}
	return &simrt.TCPConn{Conn: c}, nil
}

// Close closes the listener; the backlog is reset as a kernel does.
func (l *Listener) Close() error {
	if l.closed {
		return &net.OpError{Op: "close", Net: "sim", Err: net.ErrClosed}
	}
	l.closed = true
	for _, c := range l.q {
		c.Reset()
	}
	l.q = nil
	return nil
}

func (l *Listener) IsClosed() bool { return l.closed }
func (l *Listener) Addr() net.Addr { return Addr("sim-listener") }

var ErrRefused = sysErr("dial", syscall.ECONNREFUSED)

// Dial connects a new client endpoint to the listener.
func (l *Listener) Dial(name string, clientEP EP) (*Conn, error) {
	l.Dials++
	if l.closed {
		return nil, ErrRefused
	}
	var sep EP
	if l.ServerEP != nil {
		sep = l.ServerEP(name)
	}
	a, b := Pipe(l.S, name, clientEP, sep)
	l.q = append(l.q, b)
	l.conns = append(l.conns, b)
	return a, nil
}

// IsReset reports whether err is a connection reset / broken pipe.
func IsReset(err error) bool {
	return errors.Is(err, syscall.ECONNRESET) || errors.Is(err, syscall.EPIPE)
}

var _ net.Conn = (*Conn)(nil)
var _ net.Listener = (*Listener)(nil)
var _ = fmt.Sprintf

// Inject appends bytes to the queue towards the peer without a Write call
// (harness-side preloading of a byte stream).
func (c *Conn) Inject(p []byte) { c.wr.buf = append(c.wr.buf, p...) }
