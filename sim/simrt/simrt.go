// Package simrt is the simulation runtime linked both into the instrumented
// kmip-go code (through the check-time overlay) and into the harness.
//
// While no Sim is active every entry point is a pass-through, so that the
// instrumented code behaves exactly like the original (the repository's own
// tests are run against the overlay in that mode).
//
// While a Sim is active exactly one task runs at a time ("baton"). The
// scheduler runs in the synctest bubble's main goroutine and uses
// synctest.Wait to learn that the baton holder has parked, blocked or
// finished and that everything it woke has reached its own park.
package simrt

import (
	"context"
	"crypto/tls"
	"fmt"
	"net"
	"reflect"
	"runtime/debug"
	"sort"
	"strings"
	"sync"
	"sync/atomic"
	"testing/synctest"
	"time"
)

// ---------------------------------------------------------------- PRNG / tape

// Rng is splitmix64: tiny, stable across Go releases.
type Rng struct{ s uint64 }

func NewRng(seed uint64) *Rng { return &Rng{s: seed} }

func (r *Rng) Uint64() uint64 {
	r.s += 0x9e3779b97f4a7c15
	z := r.s
	z = (z ^ (z >> 30)) * 0xbf58476d1ce4e5b9
	z = (z ^ (z >> 27)) * 0x94d049bb133111eb
	return z ^ (z >> 31)
}

func (r *Rng) Intn(n int) int {
	if n <= 1 {
		return 0
	}
	return int(r.Uint64() % uint64(n))
}

func (r *Rng) Float64() float64 { return float64(r.Uint64()>>11) / (1 << 53) }

// Mix derives a sub-seed.
func Mix(a uint64, b uint64) uint64 {
	r := Rng{s: a ^ (b+0x632be59bd9b4e019)*0x9e3779b97f4a7c15}
	r.Uint64()
	return r.Uint64()
}

// Tape is a recorded sequence of bounded choices. In explore mode values come
// from the PRNG and are recorded; in replay mode they come from In (reduced
// modulo the bound; 0 once In is exhausted).
type Tape struct {
	In     []int
	Rec    []int
	Replay bool
	rng    *Rng
	pos    int
}

func NewTape(seed uint64) *Tape { return &Tape{rng: NewRng(seed)} }
func ReplayTape(in []int) *Tape { return &Tape{In: in, Replay: true} }
func (t *Tape) Pos() int        { return t.pos }
func (t *Tape) Recorded() []int { return t.Rec }
func (t *Tape) Exhausted() bool { return t.Replay && t.pos >= len(t.In) }

// Draw returns a value in [0,n). n <= 1 consumes nothing.
func (t *Tape) Draw(n int) int {
	if n <= 1 {
		return 0
	}
	var v int
	if t.Replay {
		if t.pos < len(t.In) {
			v = t.In[t.pos] % n
			if v < 0 {
				v = -v
			}
		}
	} else {
		v = t.rng.Intn(n)
	}
	t.pos++
	t.Rec = append(t.Rec, v)
	return v
}

// Chance returns true with probability num/den; the boring outcome (false) is
// what a zeroed tape produces.
func (t *Tape) Chance(num, den int) bool {
	if num <= 0 {
		return false
	}
	return t.Draw(den) >= den-num
}

// ---------------------------------------------------------------- tasks

const (
	stRunning int32 = iota
	stRunnable
	stWaiting
	stBlockedReal
	stDone
)

var stateNames = []string{"running", "runnable", "waiting", "blocked", "done"}

type Task struct {
	ID        int
	Role      string
	SUT       bool // created by a `go` statement of instrumented kmip-go code
	resume    chan struct{}
	state     atomic.Int32
	pred      func() bool
	lockWait  bool
	preempted bool
	site      string
	Panic     any
	Stack     string
	Started   bool
}

func (t *Task) Done() bool     { return t.state.Load() == stDone }
func (t *Task) State() string  { return stateNames[t.state.Load()] }
func (t *Task) Site() string   { return t.site }
func (t *Task) String() string { return fmt.Sprintf("%s[%s@%s]", t.Role, t.State(), t.site) }

type TaskPanic struct {
	Role  string
	SUT   bool
	Value string
	Stack string
}

// ---------------------------------------------------------------- Sim

type Config struct {
	PreemptP    float64       // probability of a preemption at each yield (explore mode)
	Preempt     []int64       // planned preemption yield indices (replay mode; used when Tape.Replay)
	MaxSteps    int           // hand-off cap
	MaxTasks    int           // cap on tasks created in one run
	MaxYields   int64         // cap on yields of one run (a task that never blocks never hands off): livelock detector
	IdleProbe   time.Duration // how long to let the fake clock run with nothing runnable and no known deadline
	Quantum     time.Duration // clock step while probing for timers the simulator cannot see
	Trace       bool          // keep the full textual event log
	PreSeed     uint64        // seed of the preemption planner
	HotP        float64       // extra preemption probability at yields tagged hot by the rewriter
	SinglePre   int64         // >0: single-preemption sweep: preempt exactly at this yield index
	SingleTask  int           // sweep: index into the other runnable tasks
	CodecYields bool          // make the yields inside ttlv encoder/decoder scheduling points
	// ClockJumpPM: per-mille probability, at each scheduling point at which tasks ARE runnable, of letting
	// simulated time pass first (to the next known deadline, or by one quantum when IdleProbe > 0). All tasks
	// are parked at that moment, so timers fire "in the middle" of whatever the tasks were doing: deadlines
	// can expire at arbitrary yields, not only when everything is blocked.
	ClockJumpPM int
}

type Sim struct {
	onces map[*sync.Once]*onceState
	cfg   Config
	Tape  *Tape
	tasks []*Task
	cur   *Task

	yieldCount  int64
	nextPreempt int64
	preIdx      int
	preRng      *Rng
	PreemptRec  []int64 // effective preemptions (yield indices)

	Steps     int
	Capped    bool
	Livelock  string   // role@function of the task that was running when the yield cap was hit
	Foreign   []string // baton holder blocked somewhere the simulator does not control
	idleSpent time.Duration
	deadlines []time.Time
	start     time.Time

	Events    []string
	evHash    uint64
	nEvents   int
	Faults    map[string]int
	Probes    map[string]int
	Pairs     map[uint64]struct{}
	lastSite  string
	siteCount map[string]int
	mu        sync.Mutex

	forcePick int // single-preemption sweep
	jumps     int
	jumped    time.Duration
}

// Jumped returns how much simulated time the scheduler let pass at scheduling points at which tasks were
// runnable (clock jumps). Oracles about elapsed time subtract it: it models slow execution, not waiting.
func (s *Sim) Jumped() time.Duration { return s.jumped }

var active atomic.Pointer[Sim]

// Active returns the running simulation, or nil.
func Active() *Sim { return active.Load() }

// New creates a simulation and makes it the active one. Must be called inside
// a synctest bubble; Close must be called before the bubble ends.
func New(cfg Config, tape *Tape) *Sim {
	if cfg.MaxYields == 0 {
		cfg.MaxYields = 1000000
	}
	if cfg.MaxTasks == 0 {
		cfg.MaxTasks = 5000
	}
	if cfg.MaxSteps == 0 {
		cfg.MaxSteps = 200000
	}
	if cfg.Quantum == 0 {
		cfg.Quantum = 250 * time.Millisecond
	}
	s := &Sim{cfg: cfg, Tape: tape, evHash: 14695981039346656037,
		Faults: map[string]int{}, Probes: map[string]int{}, Pairs: map[uint64]struct{}{},
		siteCount: map[string]int{}, preRng: NewRng(cfg.PreSeed), start: time.Now(), forcePick: -1}
	s.planPreempt()
	resetPools()
	active.Store(s)
	return s
}

func (s *Sim) Close() { active.Store(nil); DialHook = nil }

func (s *Sim) Now() time.Duration { return time.Since(s.start) }

func (s *Sim) planPreempt() {
	if s.cfg.SinglePre > 0 {
		if s.yieldCount < s.cfg.SinglePre {
			s.nextPreempt = s.cfg.SinglePre
		} else {
			s.nextPreempt = -1
		}
		return
	}
	if s.Tape.Replay {
		for s.preIdx < len(s.cfg.Preempt) && s.cfg.Preempt[s.preIdx] <= s.yieldCount {
			s.preIdx++
		}
		if s.preIdx < len(s.cfg.Preempt) {
			s.nextPreempt = s.cfg.Preempt[s.preIdx]
		} else {
			s.nextPreempt = -1
		}
		return
	}
	if s.cfg.PreemptP <= 0 {
		s.nextPreempt = -1
		return
	}
	gap := int64(1)
	for s.preRng.Float64() > s.cfg.PreemptP && gap < 1<<20 {
		gap++
	}
	s.nextPreempt = s.yieldCount + gap
}

func fnv(h uint64, str string) uint64 {
	for i := 0; i < len(str); i++ {
		h = (h ^ uint64(str[i])) * 1099511628211
	}
	return (h ^ 0xff) * 1099511628211
}

// Event appends to the event log. It never draws and never reads a clock.
func (s *Sim) Eventf(format string, a ...any) { s.Event(fmt.Sprintf(format, a...)) }

// Event appends to the event log. It never draws and never reads a clock.
func (s *Sim) Event(e string) {
	s.evHash = fnv(s.evHash, e)
	s.nEvents++
	if s.cfg.Trace || len(s.Events) < 60 {
		s.Events = append(s.Events, e)
	}
}

func (s *Sim) EventHash() uint64 { return s.evHash }
func (s *Sim) NumEvents() int    { return s.nEvents }
func (s *Sim) Yields() int64     { return s.yieldCount }

// NumTasks returns how many tasks the run has created.
func (s *Sim) NumTasks() int { return len(s.tasks) }

// Caps returns the hand-off and statement budgets of the run.
func (s *Sim) Caps() (int, int64) { return s.cfg.MaxSteps, s.cfg.MaxYields }

func (s *Sim) Fault(kind string) { s.Faults[kind]++; s.Event("fault:" + kind) }
func (s *Sim) Probe(name string) { s.Probes[name]++ }

// Choose is the only source of run-time randomness.
func (s *Sim) Choose(n int, label string) int { return s.Tape.Draw(n) }
func (s *Sim) Chance(num, den int) bool       { return s.Tape.Chance(num, den) }

// ---------------------------------------------------------------- entry points used by instrumented code

func Yield(site string) {
	s := active.Load()
	if s == nil {
		return
	}
	t := s.cur
	if t == nil {
		return
	}
	s.yieldCount++
	if s.yieldCount > s.cfg.MaxYields {
		s.livelocked(t, site)
	}
	if s.yieldCount != s.nextPreempt {
		return
	}
	s.planPreempt()
	t.site = site
	s.preemptPark(t)
}

// livelocked ends the run: the tasks have executed MaxYields statements without the run reaching quiescence
// (the observed maximum on the unchanged tree is about 10^4). The running task is parked for good.
func (s *Sim) livelocked(t *Task, site string) {
	fn := site
	if i := strings.LastIndexByte(fn, ':'); i > 0 {
		fn = fn[:i]
	}
	s.Capped = true
	s.Livelock = fn
	s.Event("livelock " + s.Livelock)
	t.site = site
	t.state.Store(stBlockedReal)
	s.cur = nil
	select {}
}

// YieldHot is emitted at yields the rewriter considers interesting (after an
// atomic load, before a select, after a wake-up): in hot-spot mode these get
// an additional preemption probability.
// YieldCodec is emitted into the ttlv encoder/decoder: only a scheduling point
// when the simulation asked for codec-level interleaving (C20).
func YieldCodec(site string) {
	s := active.Load()
	if s == nil || !s.cfg.CodecYields {
		return
	}
	Yield(site)
}

func YieldHot(site string) {
	s := active.Load()
	if s == nil {
		return
	}
	t := s.cur
	if t == nil {
		return
	}
	s.yieldCount++
	if s.yieldCount > s.cfg.MaxYields {
		s.livelocked(t, site)
	}
	if s.yieldCount != s.nextPreempt {
		if s.cfg.HotP <= 0 || s.Tape.Replay || s.cfg.SinglePre > 0 {
			return
		}
		if s.preRng.Float64() >= s.cfg.HotP {
			return
		}
		t.site = site
		s.preemptPark(t)
		return
	}
	s.planPreempt()
	t.site = site
	s.preemptPark(t)
}

func (s *Sim) preemptPark(t *Task) {
	t.preempted = true
	s.cur = nil
	t.state.Store(stRunnable)
	<-t.resume
}

func Go(site string, fn func()) {
	s := active.Load()
	if s == nil || s.cur == nil {
		go fn()
		return
	}
	s.spawn(site, true, fn)
}

func (s *Sim) Spawn(role string, fn func()) *Task { return s.spawn(role, false, fn) }

func (s *Sim) spawn(role string, sut bool, fn func()) *Task {
	if len(s.tasks) >= s.cfg.MaxTasks && s.cur != nil {
		s.livelocked(s.cur, "creating tasks without end ("+role+"):0")
	}
	s.siteCount[role]++
	t := &Task{ID: len(s.tasks), Role: fmt.Sprintf("%s#%d", role, s.siteCount[role]), resume: make(chan struct{}), SUT: sut, site: "start"}
	t.state.Store(stRunnable)
	s.tasks = append(s.tasks, t)
	go func() {
		<-t.resume
		t.Started = true
		defer func() {
			if r := recover(); r != nil {
				t.Panic = r
				t.Stack = string(debug.Stack())
			}
			t.site = "exit"
			s.cur = nil
			t.state.Store(stDone)
		}()
		fn()
	}()
	return t
}

// Block tells the scheduler that the baton holder is about to enter a real
// blocking operation. The returned handle is passed to Wake afterwards.
func Block(site string) *Task {
	s := active.Load()
	if s == nil {
		return nil
	}
	t := s.cur
	if t == nil {
		return nil
	}
	t.site = site
	s.cur = nil
	t.state.Store(stBlockedReal)
	return t
}

func Wake(t *Task) {
	if t == nil {
		return
	}
	t.state.Store(stRunnable)
	<-t.resume
}

// SelectStart returns the index of the select case to poll first (the others
// follow cyclically); -1 when no simulation is active.
func SelectStart(site string, n int) int {
	s := active.Load()
	if s == nil || s.cur == nil {
		return -1
	}
	return s.Tape.Draw(n)
}

func ZeroOf[T any](ch <-chan T) (v T, ok bool) { return }
func ZeroOfBi[T any](ch chan T) (v T, ok bool) { return }
func SendVal[T any](ch chan<- T, v T) T        { return v }
func SendValBi[T any](ch chan T, v T) T        { return v }

type tryLocker interface {
	TryLock() bool
	Lock()
}

func Lock(l tryLocker) {
	s := active.Load()
	if s == nil || s.cur == nil {
		l.Lock()
		return
	}
	if l.TryLock() {
		return
	}
	t := s.cur
	t.lockWait = true
	s.WaitUntil("lock", l.TryLock)
	t.lockWait = false
}

// LockAddr is what the rewriter emits for `x.Lock()`: p is &x, where x is either
// a mutex value or a pointer to one.
func LockAddr[T any](p *T) {
	if l, ok := any(p).(tryLocker); ok {
		Lock(l)
		return
	}
	if l, ok := any(*p).(tryLocker); ok {
		Lock(l)
		return
	}
	panic(fmt.Sprintf("simrt: cannot lock %T", p))
}

type onceState struct{ running, done bool }

// OnceDo is what the rewriter emits for a statement `x.Do(f)` (p is &x). When x is a sync.Once (or a pointer to one)
// the call is made cooperative: the task that runs f may yield inside it, and the other callers wait as simulated
// tasks instead of blocking the baton on the mutex inside sync.Once. Anything else named Do is called as written.
func OnceDo[T any, F any](p *T, f F) {
	var o *sync.Once
	switch v := any(p).(type) {
	case *sync.Once:
		o = v
	case **sync.Once:
		o = *v
	}
	ff, isFunc := any(f).(func())
	if o == nil || !isFunc {
		m := reflect.ValueOf(p).MethodByName("Do")
		if !m.IsValid() {
			m = reflect.ValueOf(p).Elem().MethodByName("Do")
		}
		m.Call([]reflect.Value{reflect.ValueOf(f)})
		return
	}
	s := active.Load()
	if s == nil || s.cur == nil {
		o.Do(ff)
		return
	}
	if s.onces == nil {
		s.onces = map[*sync.Once]*onceState{}
	}
	st := s.onces[o]
	if st == nil {
		st = &onceState{}
		s.onces[o] = st
	}
	switch {
	case st.done:
		o.Do(ff)
	case st.running:
		s.WaitUntil("once", func() bool { return st.done })
	default:
		st.running = true
		defer func() { st.done = true }()
		o.Do(ff)
	}
}

// OnceFunc, OnceValue and OnceValues stand in for their sync namesakes in instrumented code (same reason as OnceDo).
func OnceFunc(f func()) func() {
	var o sync.Once
	return func() { OnceDo(&o, func() { f() }) }
}

func OnceValue[T any](f func() T) func() T {
	var o sync.Once
	var r T
	return func() T {
		OnceDo(&o, func() { r = f() })
		return r
	}
}

func OnceValues[T1, T2 any](f func() (T1, T2)) func() (T1, T2) {
	var o sync.Once
	var r1 T1
	var r2 T2
	return func() (T1, T2) {
		OnceDo(&o, func() { r1, r2 = f() })
		return r1, r2
	}
}

func RLockAddr[T any](p *T) {
	if l, ok := any(p).(tryRLocker); ok {
		RLock(l)
		return
	}
	if l, ok := any(*p).(tryRLocker); ok {
		RLock(l)
		return
	}
	panic(fmt.Sprintf("simrt: cannot rlock %T", p))
}

type tryRLocker interface {
	TryRLock() bool
	RLock()
}

func RLock(l tryRLocker) {
	s := active.Load()
	if s == nil || s.cur == nil {
		l.RLock()
		return
	}
	if l.TryRLock() {
		return
	}
	t := s.cur
	t.lockWait = true
	s.WaitUntil("rlock", l.TryRLock)
	t.lockWait = false
}

// ---------------------------------------------------------------- harness side

// Cur returns the task holding the baton (nil outside tasks).
func (s *Sim) Cur() *Task { return s.cur }

// WaitUntil parks the current task until pred holds. pred is evaluated by the
// scheduler and may have side effects that claim a resource (TryLock): once it
// returned true the task is made runnable and pred is not evaluated again.
func (s *Sim) WaitUntil(label string, pred func() bool) {
	t := s.cur
	if t == nil {
		panic("simrt: WaitUntil outside a task: " + label)
	}
	if pred() {
		return
	}
	t.pred = pred
	t.site = label
	s.cur = nil
	t.state.Store(stWaiting)
	<-t.resume
}

// YieldNow is an unconditional scheduling point for harness code.
func (s *Sim) YieldNow(label string) {
	t := s.cur
	if t == nil {
		panic("simrt: YieldNow outside a task: " + label)
	}
	t.site = label
	s.cur = nil
	t.state.Store(stRunnable)
	<-t.resume
}

// Sleep is a simulated sleep on the fake clock.
func (s *Sim) Sleep(d time.Duration) {
	if d <= 0 {
		s.YieldNow("sleep0")
		return
	}
	dl := time.Now().Add(d)
	s.deadlines = append(s.deadlines, dl)
	s.WaitUntil("sleep", func() bool { return !time.Now().Before(dl) })
}

// Deadline tells the scheduler about a timer it cannot see (context.WithTimeout
// created by harness code, say) so that the clock jumps straight to it.
func (s *Sim) Deadline(at time.Time) { s.deadlines = append(s.deadlines, at) }

func (s *Sim) nextDeadline(now time.Time) (time.Time, bool) {
	var best time.Time
	ok := false
	keep := s.deadlines[:0]
	for _, d := range s.deadlines {
		if !d.After(now) {
			continue
		}
		keep = append(keep, d)
		if !ok || d.Before(best) {
			best, ok = d, true
		}
	}
	s.deadlines = keep
	return best, ok
}

type Result struct {
	Quiescent bool
	Capped    bool
	Foreign   []string
	Panics    []TaskPanic
	Alive     []*Task // tasks not done at the end
	SimTime   time.Duration
}

// Run is the scheduler loop; it must be called from the bubble's main
// goroutine and returns at quiescence or at the step cap.
func (s *Sim) Run() Result {
	s.RunUntil(nil)
	return s.Result()
}

// RunUntil runs the scheduler until quiescence, the step cap, or stop() holds
// (evaluated at every scheduling point). It may be called again to continue.
func (s *Sim) RunUntil(stop func() bool) (quiescent bool) {
	for {
		synctest.Wait()
		if s.Capped {
			return false
		}
		if s.cur != nil {
			// the baton holder blocked in an operation the simulator does not control
			s.Foreign = append(s.Foreign, s.cur.String())
			s.cur.state.Store(stBlockedReal)
			s.cur = nil
		}
		if stop != nil && stop() {
			return false
		}
		var r []*Task
		var lockers []*Task
		for _, t := range s.tasks {
			switch t.state.Load() {
			case stRunnable:
				r = append(r, t)
			case stWaiting:
				if t.lockWait {
					lockers = append(lockers, t)
					continue
				}
				if t.pred() {
					t.pred = nil
					t.state.Store(stRunnable)
					r = append(r, t)
				}
			}
		}
		if len(lockers) > 0 {
			// lock hand-off order is a scheduler choice
			k := 0
			if len(lockers) > 1 {
				k = s.Tape.Draw(len(lockers))
			}
			for i := range lockers {
				t := lockers[(k+i)%len(lockers)]
				if t.pred() {
					t.pred = nil
					t.state.Store(stRunnable)
					r = append(r, t)
				}
			}
		}
		if len(r) == 0 {
			now := time.Now()
			if dl, ok := s.nextDeadline(now); ok {
				d := dl.Sub(now)
				if s.cfg.IdleProbe > 0 && d > s.cfg.Quantum {
					d = s.cfg.Quantum
				}
				time.Sleep(d)
				continue
			}
			if s.idleSpent < s.cfg.IdleProbe {
				s.idleSpent += s.cfg.Quantum
				time.Sleep(s.cfg.Quantum)
				continue
			}
			return true
		}
		s.idleSpent = 0
		if s.cfg.ClockJumpPM > 0 && s.jumps < 64 && s.Tape.Chance(s.cfg.ClockJumpPM, 1000) {
			now := time.Now()
			d := time.Duration(0)
			if dl, ok := s.nextDeadline(now); ok {
				d = dl.Sub(now)
			}
			if s.cfg.IdleProbe > 0 && (d == 0 || d > s.cfg.Quantum) {
				d = s.cfg.Quantum
			}
			if d > 0 {
				s.jumps++
				s.jumped += d
				s.Faults["clock-jump"]++
				s.Event("clock-jump")
				// the candidates found above stay parked; whatever the timers wake joins them
				time.Sleep(d)
				continue
			}
		}
		sort.Slice(r, func(i, j int) bool { return r[i].ID < r[j].ID })
		t, noop := s.pick(r)
		if !noop {
			s.Steps++
			if s.Steps > s.cfg.MaxSteps {
				s.Capped = true
				return false
			}
			pair := fnv(fnv(14695981039346656037, s.lastSite), t.site)
			s.Pairs[pair] = struct{}{}
			s.lastSite = t.site
			s.Event(t.Role + "@" + t.site)
		}
		s.cur = t
		t.state.Store(stRunning)
		t.resume <- struct{}{}
	}
}

// pick chooses the next task. noop is true when a preempted task simply
// continues because nothing else can run (not an event: replays do not list
// such preemptions).
func (s *Sim) pick(r []*Task) (next *Task, noop bool) {
	var pre *Task
	for _, t := range r {
		if t.preempted {
			pre = t
			t.preempted = false
		}
	}
	if pre != nil {
		if len(r) == 1 {
			// recorded all the same: a replay must go through the identical scheduler iteration
			// (predicate evaluation, lock hand-off draw) at this yield
			s.PreemptRec = append(s.PreemptRec, s.yieldCount)
			return pre, true
		}
		others := make([]*Task, 0, len(r)-1)
		for _, t := range r {
			if t != pre {
				others = append(others, t)
			}
		}
		s.PreemptRec = append(s.PreemptRec, s.yieldCount)
		// reach probe: in which function did an effective preemption land?
		site := pre.site
		if i := strings.LastIndexByte(site, ':'); i > 0 {
			site = site[:i]
		}
		s.Probes["preempt@"+site]++
		if s.cfg.SinglePre > 0 {
			return others[s.cfg.SingleTask%len(others)], false
		}
		return others[s.Tape.Draw(len(others))], false
	}
	return r[s.Tape.Draw(len(r))], false
}

// Result summarises the state of the simulation.
func (s *Sim) Result() Result {
	res := Result{Capped: s.Capped, Foreign: s.Foreign, SimTime: s.Now()}
	res.Quiescent = !s.Capped
	for _, t := range s.tasks {
		if t.Panic != nil {
			res.Panics = append(res.Panics, TaskPanic{Role: t.Role, SUT: t.SUT, Value: fmt.Sprint(t.Panic), Stack: t.Stack})
		} else if !t.Done() {
			res.Alive = append(res.Alive, t)
		}
	}
	return res
}

func (s *Sim) Tasks() []*Task { return s.tasks }

// AliveSUT lists the live tasks created by kmip-go code (role prefix filter optional).
func (s *Sim) AliveSUT(prefix string) []*Task {
	var out []*Task
	for _, t := range s.tasks {
		if t.SUT && !t.Done() && strings.HasPrefix(t.Role, prefix) {
			out = append(out, t)
		}
	}
	return out
}

// PanicSig builds a stable signature from a panic: message class plus the
// kmip-go function names of the top frames (no line numbers).
func PanicSig(p TaskPanic) string {
	msg := p.Value
	if i := strings.IndexByte(msg, '\n'); i >= 0 {
		msg = msg[:i]
	}
	if strings.HasPrefix(msg, "panic(") {
		// scripted handler panics carry the request token: keep the kind only
		if i := strings.Index(msg, " in "); i > 0 {
			msg = msg[:i]
		}
	}
	msg = strings.Map(func(r rune) rune {
		if r < 32 || r > 126 {
			return '?'
		}
		return r
	}, msg)
	if strings.HasPrefix(msg, "interface conversion") {
		msg = "interface conversion"
	}
	if strings.Contains(msg, "index out of range") {
		msg = "index out of range"
	}
	if strings.Contains(msg, "slice bounds out of range") {
		msg = "slice bounds out of range"
	}
	if len(msg) > 80 {
		msg = msg[:80]
	}
	var fr []string
	for _, ln := range strings.Split(p.Stack, "\n") {
		if !strings.HasPrefix(ln, "github.com/ovh/kmip-go") {
			continue
		}
		if i := strings.LastIndexByte(ln, '('); i > 0 {
			ln = ln[:i]
		}
		ln = strings.TrimPrefix(ln, "github.com/ovh/kmip-go")
		ln = strings.TrimPrefix(ln, "/")
		if len(fr) > 0 && fr[len(fr)-1] == ln {
			continue
		}
		fr = append(fr, ln)
		if len(fr) == 3 {
			break
		}
	}
	return msg + " @ " + strings.Join(fr, " < ")
}

// ---------------------------------------------------------------- deterministic sync.Pool

// Pool replaces sync.Pool in the overlay (the rewriter renames the type): a sync.Pool drops and
// hands out objects depending on the P a goroutine runs on and on GC cycles, neither of which a
// replay controls. This one is a plain LIFO stack, maximally eager to reuse (the worst case for
// state leaking through a pooled object), and every pool is emptied when a simulation starts so
// that runs in one worker process are independent of each other.
type Pool struct {
	New   func() any
	mu    sync.Mutex
	items []any
	reg   bool
}

var (
	poolsMu sync.Mutex
	pools   []*Pool
)

func (p *Pool) register() {
	if p.reg {
		return
	}
	p.reg = true
	poolsMu.Lock()
	pools = append(pools, p)
	poolsMu.Unlock()
}

func (p *Pool) Get() any {
	p.mu.Lock()
	p.register()
	var x any
	if n := len(p.items); n > 0 {
		x = p.items[n-1]
		p.items = p.items[:n-1]
	}
	p.mu.Unlock()
	if x == nil && p.New != nil {
		x = p.New()
	}
	return x
}

func (p *Pool) Put(x any) {
	if x == nil {
		return
	}
	p.mu.Lock()
	p.register()
	p.items = append(p.items, x)
	p.mu.Unlock()
}

func resetPools() {
	poolsMu.Lock()
	for _, p := range pools {
		p.mu.Lock()
		p.items = nil
		p.mu.Unlock()
	}
	poolsMu.Unlock()
}

// SleepFor replaces time.Sleep in the overlay: a simulated sleep for tasks, a real one otherwise.
func SleepFor(d time.Duration) {
	s := active.Load()
	if s == nil || s.cur == nil {
		time.Sleep(d)
		return
	}
	s.Sleep(d)
}

// ---------------------------------------------------------------- dial seam

// DialHook, when set, replaces the network for TLSDialer (the rewriter turns every tls.Dialer of the library into a
// TLSDialer). It must honour ctx the way a real dialer does.
var DialHook func(ctx context.Context, network, addr string) (net.Conn, error)

// TLSDialer stands in for crypto/tls.Dialer in instrumented code.
type TLSDialer struct {
	NetDialer *net.Dialer
	Config    *tls.Config
}

func (d *TLSDialer) DialContext(ctx context.Context, network, addr string) (net.Conn, error) {
	if h := DialHook; h != nil && active.Load() != nil {
		return h(ctx, network, addr)
	}
	return (&tls.Dialer{NetDialer: d.NetDialer, Config: d.Config}).DialContext(ctx, network, addr)
}

func (d *TLSDialer) Dial(network, addr string) (net.Conn, error) {
	return d.DialContext(context.Background(), network, addr)
}

// TCPConn stands in for net.TCPConn in instrumented code (the rewriter turns every mention of net.TCPConn into this
// type, and the simulated listener and dialers hand their connections out wrapped in it), so that code which looks
// for the TCP connection under a net.Conn to set socket options finds one. Options the simulated connection knows
// (linger) change its behaviour; the others are accepted and ignored.
type TCPConn struct{ net.Conn }

// SockOpter is what a simulated connection implements to receive socket options.
type SockOpter interface {
	SockOpt(name string, value int) error
}

func (c *TCPConn) opt(name string, v int) error {
	if o, ok := c.Conn.(SockOpter); ok {
		return o.SockOpt(name, v)
	}
	return nil
}
func b2i(b bool) int {
	if b {
		return 1
	}
	return 0
}
func (c *TCPConn) SetLinger(sec int) error    { return c.opt("linger", sec) }
func (c *TCPConn) SetNoDelay(b bool) error    { return c.opt("nodelay", b2i(b)) }
func (c *TCPConn) SetKeepAlive(b bool) error  { return c.opt("keepalive", b2i(b)) }
func (c *TCPConn) SetReadBuffer(n int) error  { return c.opt("rcvbuf", n) }
func (c *TCPConn) SetWriteBuffer(n int) error { return c.opt("sndbuf", n) }
func (c *TCPConn) SetKeepAlivePeriod(d time.Duration) error {
	return c.opt("keepalive-period", int(d/time.Second))
}
func (c *TCPConn) SetKeepAliveConfig(cfg net.KeepAliveConfig) error {
	return c.opt("keepalive", b2i(cfg.Enable))
}
func (c *TCPConn) CloseRead() error {
	if h, ok := c.Conn.(interface{ CloseRead() error }); ok {
		return h.CloseRead()
	}
	return nil
}
func (c *TCPConn) CloseWrite() error {
	if h, ok := c.Conn.(interface{ CloseWrite() error }); ok {
		return h.CloseWrite()
	}
	return nil
}

// TLSConn stands in for crypto/tls.Conn in instrumented code (the rewriter turns every mention of tls.Conn into this
// type; a simulated listener in TLS mode hands its connections out wrapped in it). There is no cryptography: the
// handshake is whatever the simulated transport makes of it (simnet: the server side waits for a four-byte client
// hello), which is enough for what the properties can depend on — a handshake blocks until the peer speaks, honours
// the connection's deadlines and its context, can fail, and happens on first use if nobody asked for it.
type TLSConn struct {
	net.Conn
	hsDone bool
	hsErr  error
}

// Handshaker is what a simulated transport implements to play the peer's part of the handshake.
type Handshaker interface {
	SimHandshake(ctx context.Context) error
}

func (c *TLSConn) handshaker() Handshaker {
	var inner net.Conn = c.Conn
	for i := 0; i < 4 && inner != nil; i++ {
		if h, ok := inner.(Handshaker); ok {
			return h
		}
		if t, ok := inner.(*TCPConn); ok {
			inner = t.Conn
			continue
		}
		break
	}
	return nil
}

func (c *TLSConn) Handshake() error { return c.HandshakeContext(context.Background()) }

func (c *TLSConn) HandshakeContext(ctx context.Context) error {
	if c.hsDone {
		return c.hsErr
	}
	if h := c.handshaker(); h != nil {
		c.hsErr = h.SimHandshake(ctx)
	}
	c.hsDone = true
	return c.hsErr
}

func (c *TLSConn) Read(p []byte) (int, error) {
	if err := c.Handshake(); err != nil {
		return 0, err
	}
	return c.Conn.Read(p)
}

func (c *TLSConn) Write(p []byte) (int, error) {
	if err := c.Handshake(); err != nil {
		return 0, err
	}
	return c.Conn.Write(p)
}

func (c *TLSConn) ConnectionState() tls.ConnectionState {
	return tls.ConnectionState{Version: tls.VersionTLS13, HandshakeComplete: c.hsDone && c.hsErr == nil}
}
func (c *TLSConn) NetConn() net.Conn           { return c.Conn }
func (c *TLSConn) VerifyHostname(string) error { return nil }
func (c *TLSConn) OCSPResponse() []byte        { return nil }
func (c *TLSConn) CloseWrite() error {
	if h, ok := c.Conn.(interface{ CloseWrite() error }); ok {
		return h.CloseWrite()
	}
	return nil
}

// VarSnap keeps deep copies of the package-level maps of an instrumented package (taken the first time Restore is
// called, after all init functions) and puts fresh copies back on every later call, so that whatever a run adds to a
// process-wide table lazily is gone when the next run starts: every simulated run begins in a cold process.
type VarSnap struct {
	taken bool
	vals  map[string]reflect.Value
	lens  map[string]int
}

// Restore takes name -> pointer to the package-level variable; variables that are not maps are left alone.
func (s *VarSnap) Restore(vars map[string]any) {
	if !s.taken {
		s.taken = true
		s.vals = map[string]reflect.Value{}
		s.lens = map[string]int{}
		for name, p := range vars {
			v := reflect.ValueOf(p).Elem()
			if v.Kind() == reflect.Map && !v.IsNil() {
				s.vals[name] = deepCopyValue(v)
				s.lens[name] = deepLen(v)
			}
		}
		return
	}
	for name, p := range vars {
		if snap, ok := s.vals[name]; ok {
			// (a table that still has the shape of the snapshot has not been filled in the meantime: left alone)
			if cur := reflect.ValueOf(p).Elem(); !cur.IsNil() && deepLen(cur) == s.lens[name] {
				continue
			}
			reflect.ValueOf(p).Elem().Set(deepCopyValue(snap))
		}
	}
}

// deepLen counts the entries of a map and of the maps and slices nested in it.
func deepLen(v reflect.Value) int {
	switch v.Kind() {
	case reflect.Map:
		n := v.Len()
		if k := v.Type().Elem().Kind(); k == reflect.Map || k == reflect.Slice {
			it := v.MapRange()
			for it.Next() {
				n += deepLen(it.Value())
			}
		}
		return n
	case reflect.Slice:
		n := v.Len()
		if k := v.Type().Elem().Kind(); k == reflect.Map || k == reflect.Slice {
			for i := 0; i < v.Len(); i++ {
				n += deepLen(v.Index(i))
			}
		}
		return n
	}
	return 0
}

func deepCopyValue(v reflect.Value) reflect.Value {
	switch v.Kind() {
	case reflect.Map:
		if v.IsNil() {
			return v
		}
		out := reflect.MakeMapWithSize(v.Type(), v.Len())
		it := v.MapRange()
		for it.Next() {
			out.SetMapIndex(it.Key(), deepCopyValue(it.Value()))
		}
		return out
	case reflect.Slice:
		if v.IsNil() {
			return v
		}
		out := reflect.MakeSlice(v.Type(), v.Len(), v.Len())
		for i := 0; i < v.Len(); i++ {
			out.Index(i).Set(deepCopyValue(v.Index(i)))
		}
		return out
	}
	return v
}
