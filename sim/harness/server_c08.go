package harness

import (
	"context"
	"encoding/binary"
	"encoding/hex"
	"encoding/json"
	"errors"
	"fmt"
	"io"
	"strings"
	"time"

	"kmipverif/simnet"
	"kmipverif/simrt"

	"github.com/ovh/kmip-go"
	"github.com/ovh/kmip-go/kmipserver"
	"github.com/ovh/kmip-go/ttlv"
)

// ---- C08: server stays available whatever clients and handlers do

type ActSc struct {
	Kind   string `json:"kind"` // send | frag | resp-msg | corrupt | garbage | oversize | read | yield | sleep | half-close | close | reset | stop
	Req    *ReqSc `json:"req,omitempty"`
	N      int    `json:"n,omitempty"`   // fragments / yields / reads
	Pos    int    `json:"pos,omitempty"` // corrupt: byte offset (mod frame length)
	Val    int    `json:"val,omitempty"` // corrupt: replacement byte
	Hex    string `json:"hex,omitempty"` // garbage bytes
	Ms     int    `json:"ms,omitempty"`
	Preset string `json:"preset,omitempty"` // named undecodable-but-framed requests
}

type RawClientSc struct {
	Canary bool    `json:"canary,omitempty"`
	Acts   []ActSc `json:"acts"`
	// Refused: the server's connect hook refuses this connection. The client sends its first request (if any) and
	// then only reads: the server must end the connection by itself
	Refused bool `json:"refused,omitempty"`
	// Hello (TLS listener only): what the client makes of the handshake: "" it sends its hello and goes on |
	// "silent" it connects and says nothing | "partial" it sends half a hello and stops | "garbage" it sends
	// something else and reads until the server hangs up. The last three stay connected until the end of the run
	Hello string `json:"hello,omitempty"`
}

type ConnFault struct {
	Conn int    `json:"conn"` // index of the client whose server-side endpoint is faulted
	Op   int    `json:"op"`
	Kind string `json:"kind"`
}

type C08Sc struct {
	Clients     []RawClientSc  `json:"clients"`
	ServerRates map[string]int `json:"server_rates,omitempty"`
	ServerPlan  []ConnFault    `json:"server_plan,omitempty"`
	Chunk       int            `json:"chunk,omitempty"`
	Capacity    int            `json:"capacity,omitempty"`
	HTTP        []HTTPReqSc    `json:"http,omitempty"` // exchanges through the HTTP handler, concurrent with the connections
	// StalledShutdown: clients that stopped reading (or are stuck writing) stay connected while the server is
	// shut down; Shutdown must still return (forced cancellation after the grace period) and nothing may remain
	StalledShutdown bool `json:"stalled_shutdown,omitempty"`
	// TLS: the listener hands out (simulated) TLS connections: each server-side connection starts with a handshake
	// that waits for the client's hello
	TLS bool `json:"tls,omitempty"`
	// RouteDiscover: the application routes Discover Versions itself; its handler may fail or panic like any other
	RouteDiscover bool `json:"route_discover,omitempty"`
	// DebugMw: the library's own server-side DebugMiddleware is installed on the executor (1 default marshaller,
	// 2 a JSON marshaller): it sees every request and response, also the rejected ones
	DebugMw int `json:"debug_mw,omitempty"`
}

var c08Outcomes = []string{"ok", "ok", "ok", "et", "ep", "pe", "ps", "pS", "pi", "pn", "y2,ok", "sl300,ok", "sL300,ok", "sl5000,ok", "sL5000,ok", "y3,et",
	"pk", "pK", "pm", "sl2000,ps", "sl5000,pn", "sL300,pe", "sl3000,cx,pk", "y2,pm", "nn", "y1,nn", "eL", "eW", "y1,eL"}

func genSrvReq(g *simrt.Tape) *ReqSc {
	rs := &ReqSc{Version: g.Draw(5), Option: g.Draw(3), Hdr: genHdr(g), IDs: genIDs(g)}
	if g.Draw(40) == 0 {
		rs.Pad = []int{9000, 80000, 200000, 900000}[g.Draw(4)]
	}
	if g.Draw(12) == 0 {
		rs.Version = 5
	}
	if g.Draw(12) == 0 {
		rs.CountDelta = []int{1, 1, -1000, -2000, 1000}[g.Draw(5)]
	}
	n := 1 + g.Draw(5)
	for i := 0; i < n; i++ {
		it := ItemSc{Tok: c08Outcomes[g.Draw(len(c08Outcomes))]}
		switch g.Draw(10) {
		case 0:
			it.Op = "unrouted"
		case 1:
			it.Ext = "critical"
		case 2:
			it.NoID = true
		case 3:
			it.Ext = "plain"
		case 4:
			it.Op = "discover"
		case 5:
			it.Op = "unknown"
		case 6:
			it.Op = []string{"destroy", "archive", "recover", "revoke"}[g.Draw(4)]
		}
		rs.Items = append(rs.Items, it)
	}
	return rs
}

var c08Presets = []string{"bad-credential", "bad-enum-type", "nested-short", "int-len-0", "bigint-empty", "wrong-top-tag", "struct-overrun", "bool-len-4"}

func genC08(g *simrt.Tape, tier string) any {
	sc := &C08Sc{}
	nc := 1 + g.Draw(5)
	if tier == "thorough" {
		nc = 1 + g.Draw(7)
	}
	for c := 0; c < nc; c++ {
		var cl RawClientSc
		na := 1 + g.Draw(6)
		for a := 0; a < na; a++ {
			var act ActSc
			switch v := g.Draw(30); {
			case v < 10:
				act = ActSc{Kind: "send", Req: genSrvReq(g)}
			case v < 13:
				act = ActSc{Kind: "frag", Req: genSrvReq(g), N: 2 + g.Draw(4)}
			case v < 16:
				act = ActSc{Kind: "read"}
			case v < 18:
				act = ActSc{Kind: "yield", N: 1 + g.Draw(8)}
			case v < 19:
				act = ActSc{Kind: "sleep", Ms: []int{1, 100, 1000, 4000, 12000, 61000}[g.Draw(6)]}
			case v < 20:
				act = ActSc{Kind: "resp-msg"}
			case v < 22:
				act = ActSc{Kind: "corrupt", Req: genSrvReq(g), Pos: g.Draw(400), Val: g.Draw(256)}
			case v < 24:
				act = ActSc{Kind: "preset", Preset: c08Presets[g.Draw(len(c08Presets))]}
			case v < 25:
				b := make([]byte, 1+g.Draw(40))
				for i := range b {
					b[i] = byte(g.Draw(256))
				}
				act = ActSc{Kind: "garbage", Hex: hex.EncodeToString(b)}
			case v < 26:
				act = ActSc{Kind: "oversize", N: g.Draw(3)}
			case v < 27:
				act = ActSc{Kind: "close"}
			case v < 28:
				act = ActSc{Kind: "reset"}
			case v < 29:
				act = ActSc{Kind: "half-close"}
			default:
				act = ActSc{Kind: "stop"}
			}
			cl.Acts = append(cl.Acts, act)
		}
		cl.Refused = g.Draw(8) == 0
		sc.Clients = append(sc.Clients, cl)
	}
	// one or two canaries
	for k := 0; k < 1+g.Draw(2); k++ {
		var cl RawClientSc
		cl.Canary = true
		for i := 0; i < 1+g.Draw(3); i++ {
			cl.Acts = append(cl.Acts, ActSc{Kind: "send", Req: &ReqSc{Version: 4, Items: []ItemSc{{Tok: "ok"}, {Tok: "ok"}}}}, ActSc{Kind: "read"})
		}
		sc.Clients = append(sc.Clients, cl)
	}
	if g.Draw(3) == 0 {
		sc.ServerRates = map[string]int{[]string{"reset", "epipe", "short-write", "stall", "eof"}[g.Draw(5)]: 30 + g.Draw(150)}
	}
	sc.Chunk = []int{simnet.ChunkMax, simnet.ChunkRandom, simnet.ChunkRandom}[g.Draw(3)]
	sc.Capacity = []int{0, 0, 64, 1024}[g.Draw(4)]
	if g.Draw(3) == 0 {
		for i, n := 0, 1+g.Draw(4); i < n; i++ {
			sc.HTTP = append(sc.HTTP, genHTTPReq(g))
		}
	}
	sc.StalledShutdown = g.Draw(4) == 0
	if g.Draw(5) == 0 {
		sc.RouteDiscover = true
		for i := range sc.Clients {
			for k := range sc.Clients[i].Acts {
				if r := sc.Clients[i].Acts[k].Req; r != nil {
					routedDiscovery(r)
				}
			}
		}
		for i := range sc.HTTP {
			if sc.HTTP[i].Req != nil {
				routedDiscovery(sc.HTTP[i].Req)
			}
		}
	}
	if g.Draw(4) == 0 {
		sc.DebugMw = 1 + g.Draw(2)
	}
	if g.Draw(4) == 0 {
		sc.TLS = true
		for i := range sc.Clients {
			if !sc.Clients[i].Canary && g.Draw(3) == 0 {
				sc.Clients[i].Hello = []string{"silent", "partial", "garbage"}[g.Draw(3)]
			}
		}
	}
	return sc
}

func decodeC08(raw json.RawMessage) (any, error) {
	sc := &C08Sc{}
	return sc, json.Unmarshal(raw, sc)
}

// presetFrame returns a correctly framed top-level item that the decoder is expected to refuse.
func presetFrame(name string) []byte {
	ts := time.Unix(1700000000, 0).UTC()
	base := ttlv.MarshalTTLV(&kmip.RequestMessage{Header: kmip.RequestHeader{ProtocolVersion: kmip.V1_4, TimeStamp: &ts, BatchCount: 1},
		BatchItem: []kmip.RequestBatchItem{{Operation: kmip.OperationDiscoverVersions}}})
	item := func(tag uint32, typ byte, val []byte, declared int) []byte {
		b := []byte{byte(tag >> 16), byte(tag >> 8), byte(tag), typ, 0, 0, 0, 0}
		binary.BigEndian.PutUint32(b[4:], uint32(declared))
		b = append(b, val...)
		for len(b)%8 != 0 {
			b = append(b, 0)
		}
		return b
	}
	wrap := func(inner []byte) []byte { return item(0x420078, 0x01, inner, len(inner)) }
	switch name {
	case "bad-credential":
		// Authentication with an unsupported credential type
		credInner := append(item(0x420024, 0x05, []byte{0, 0, 0, 0x99}, 4), item(0x420025, 0x01, nil, 0)...)
		cred := item(0x420023, 0x01, credInner, len(credInner))
		auth := item(0x42000C, 0x01, cred, len(cred))
		pvInner := append(item(0x42006A, 0x02, []byte{0, 0, 0, 1}, 4), item(0x42006B, 0x02, []byte{0, 0, 0, 4}, 4)...)
		pv := item(0x420069, 0x01, pvInner, len(pvInner))
		hdr := append(append([]byte{}, pv...), auth...)
		hdr = append(hdr, item(0x42000D, 0x02, []byte{0, 0, 0, 1}, 4)...)
		h := item(0x420077, 0x01, hdr, len(hdr))
		op := item(0x42005C, 0x05, []byte{0, 0, 0, 0x1E}, 4)
		bi := item(0x42000F, 0x01, op, len(op))
		return wrap(append(h, bi...))
	case "bad-enum-type":
		// operation encoded as an integer instead of an enumeration
		b := append([]byte{}, base...)
		for i := 0; i+3 < len(b); i += 8 {
			if b[i] == 0x42 && b[i+1] == 0x00 && b[i+2] == 0x5C {
				b[i+3] = 0x02
			}
		}
		return b
	case "nested-short":
		// a structure whose only child is a truncated header
		return wrap([]byte{0x42, 0x00, 0x77, 0x01, 0, 0, 0, 0})[:16]
	case "int-len-0":
		return wrap(item(0x420077, 0x01, item(0x42000D, 0x02, nil, 0), 8))
	case "bigint-empty":
		return wrap(item(0x420077, 0x01, item(0x42000D, 0x04, nil, 0), 8))
	case "wrong-top-tag":
		b := append([]byte{}, base...)
		b[2] = 0x0F
		return b
	case "struct-overrun":
		// inner structure announces more than the outer one contains
		inner := item(0x420077, 0x01, nil, 64)
		return wrap(inner)
	case "bool-len-4":
		return wrap(item(0x420077, 0x01, item(0x42000D, 0x06, []byte{0, 0, 0, 1}, 4), 16))
	}
	return base
}

// classify decides, outside the simulation, what a frame the harness sends obliges the server to.
// It uses the library's own decoder under recover (DESIGN §3 C08).
func classify(frame []byte) string {
	if len(frame) < 8 {
		return "unframed"
	}
	l := int(binary.BigEndian.Uint32(frame[4:8]))
	padded := (l + 7) / 8 * 8
	if 8+padded != len(frame) {
		return "unframed"
	}
	if 8+padded > 1<<20 {
		return "unframed"
	}
	res := "undecodable"
	func() {
		defer func() {
			if r := recover(); r != nil {
				res = "decoder-panics"
			}
		}()
		cp := append([]byte{}, frame...)
		tag := int(cp[0])<<16 | int(cp[1])<<8 | int(cp[2])
		switch tag {
		case kmip.TagRequestMessage:
			var req kmip.RequestMessage
			if err := ttlv.UnmarshalTTLV(cp, &req); err == nil {
				res = "request"
			}
		case kmip.TagResponseMessage:
			var resp kmip.ResponseMessage
			if err := ttlv.UnmarshalTTLV(cp, &resp); err == nil {
				res = "ignored"
			}
		}
	}()
	return res
}

type obligation struct {
	kind   string // request | undecodable
	rs     *ReqSc
	prefix string
}

type rawClient struct {
	idx               int
	sc                *RawClientSc
	conn              *simnet.Conn
	obl               []obligation
	poison            bool // the byte stream is no longer something the server owes answers for
	brokeIt           bool // the client itself closed / reset / half-closed / stopped reading
	got               []*kmip.ResponseMessage
	readErr           error
	done              bool
	doneAt            time.Duration
	stopped           bool
	decoderPanicFrame string
	unsolicited       string
}

func (w *serverWorld) runRawClient(sc *C08Sc, rc *rawClient) {
	s := w.s
	name := fmt.Sprintf("c%d", rc.idx)
	if rc.sc.Canary {
		name = fmt.Sprintf("canary%d", rc.idx)
	}
	conn, err := w.ln.Dial(name, simnet.EP{Chunk: sc.Chunk, Capacity: sc.Capacity})
	if err != nil {
		rc.done = true
		return
	}
	rc.conn = conn
	st := ttlv.NewStream(conn, 0)
	nreq := 0
	if sc.TLS {
		switch rc.sc.Hello {
		case "":
			_, _ = conn.Write([]byte(simnet.ClientHello))
		case "silent", "partial":
			// stays connected and never completes the handshake: it is owed nothing, and it must not be in anybody's way
			s.Fault("tls-peer-" + rc.sc.Hello)
			if rc.sc.Hello == "partial" {
				_, _ = conn.Write([]byte(simnet.ClientHello[:2]))
			}
			rc.brokeIt = true
			rc.done = true
			rc.doneAt = s.Now() - s.Jumped()
			return
		default:
			s.Fault("tls-peer-garbage")
			_, _ = conn.Write([]byte("\x00\x01\x02\x03garbage"))
			var resp kmip.ResponseMessage
			for st.Recv(&resp) == nil {
			}
			rc.brokeIt = true
			_ = conn.Close()
			rc.done = true
			rc.doneAt = s.Now() - s.Jumped()
			return
		}
	}
	if rc.sc.Refused {
		s.Fault("connect-hook-refusal")
		for _, a := range rc.sc.Acts {
			if a.Kind == "send" {
				_, _ = conn.Write(ttlv.MarshalTTLV(buildRequest(a.Req, name+".r1")))
				break
			}
		}
		var resp kmip.ResponseMessage
		for st.Recv(&resp) == nil {
			// (whether a refused connection gets an answer to what it already sent is not stated; it must end)
		}
		rc.brokeIt = true
		_ = conn.Close()
		rc.done = true
		rc.doneAt = s.Now() - s.Jumped()
		s.Eventf("client %s (refused) done", name)
		return
	}
	sendFrame := func(frame []byte, frags int, rs *ReqSc, prefix string) {
		if !rc.poison {
			switch classify(frame) {
			case "request":
				if rs == nil {
					// a modified frame that still decodes: its content is no longer what the scenario says,
					// only "exactly one response" is owed
					rc.obl = append(rc.obl, obligation{kind: "request-any", prefix: prefix})
				} else {
					rc.obl = append(rc.obl, obligation{kind: "request", rs: rs, prefix: prefix})
				}
			case "undecodable":
				rc.obl = append(rc.obl, obligation{kind: "undecodable"})
				rc.poison = true
				s.Fault("undecodable-frame")
			case "decoder-panics":
				rc.poison = true
				rc.decoderPanicFrame = hex.EncodeToString(frame)
				s.Fault("decoder-panicking-frame")
			case "ignored":
			default:
				rc.poison = true
				s.Fault("unframed-bytes")
			}
		}
		if frags <= 1 {
			_, _ = conn.Write(frame)
			return
		}
		s.Fault("fragmented-send")
		step := max(len(frame)/frags, 1)
		for off := 0; off < len(frame); off += step {
			end := min(off+step, len(frame))
			if _, err := conn.Write(frame[off:end]); err != nil {
				return
			}
			s.YieldNow("client-frag")
		}
	}
	readOne := func() bool {
		var resp kmip.ResponseMessage
		if err := st.Recv(&resp); err != nil {
			rc.readErr = err
			return false
		}
		rc.got = append(rc.got, &resp)
		return true
	}
	terminated := false
loop:
	for _, a := range rc.sc.Acts {
		switch a.Kind {
		case "send", "frag":
			nreq++
			prefix := fmt.Sprintf("%s.r%d", name, nreq)
			sendFrame(ttlv.MarshalTTLV(buildRequest(a.Req, prefix)), a.N, a.Req, prefix)
		case "resp-msg":
			sendFrame(ttlv.MarshalTTLV(&kmip.ResponseMessage{Header: kmip.ResponseHeader{ProtocolVersion: kmip.V1_4, TimeStamp: time.Unix(1700000000, 0).UTC(), BatchCount: 0}}), 1, nil, "")
		case "corrupt":
			nreq++
			// ids of a request that is about to be altered live in their own namespace ("x..."): a one-byte
			// alteration can then never turn them into the id of a well-formed request ("c...")
			prefix := fmt.Sprintf("x%s.r%d", name[1:], nreq)
			frame := ttlv.MarshalTTLV(buildRequest(a.Req, prefix))
			pos := 8 + a.Pos%(len(frame)-8)
			frame[pos] = byte(a.Val)
			s.Fault("corrupt")
			sendFrame(frame, 1, nil, prefix)
		case "preset":
			s.Fault("corrupt")
			sendFrame(presetFrame(a.Preset), 1, nil, "")
		case "garbage":
			b, _ := hex.DecodeString(a.Hex)
			s.Fault("garbage")
			sendFrame(b, 1, nil, "")
		case "oversize":
			hdr := []byte{0x42, 0x00, 0x78, 0x01, 0, 0x10, 0, 0x08}
			if a.N == 1 {
				hdr = []byte{0x42, 0x00, 0x78, 0x01, 0x00, 0x80, 0x00, 0x00} // 8 MiB
			}
			s.Fault("oversize")
			rc.poison = true
			_, _ = conn.Write(hdr)
		case "read":
			if len(rc.got) < len(rc.obl) {
				if !readOne() {
					break loop
				}
			}
		case "yield":
			for i := 0; i < max(a.N, 1); i++ {
				s.YieldNow("client-dally")
			}
		case "sleep":
			s.Sleep(time.Duration(a.Ms) * time.Millisecond)
		case "half-close":
			s.Fault("client-half-close")
			rc.brokeIt = true // whether a half-closed connection is still owed answers is not settled by the statement
			_ = conn.CloseWrite()
			terminated = true
			break loop
		case "close":
			s.Fault("client-close")
			rc.brokeIt = true
			_ = conn.Close()
			terminated = true
			break loop
		case "reset":
			s.Fault("client-reset")
			rc.brokeIt = true
			conn.Reset()
			terminated = true
			break loop
		case "stop":
			s.Fault("client-stops-reading")
			rc.brokeIt = true
			rc.stopped = true
			terminated = true
			break loop
		}
	}
	if !rc.brokeIt {
		// read everything the server owes us (half-closed connections can still be read)
		for len(rc.got) < len(rc.obl) {
			if !readOne() {
				break
			}
		}
		// nothing more is owed: half-close and drain; anything that still arrives is a response nobody asked for
		if !rc.poison && !terminated && len(rc.got) == len(rc.obl) {
			_ = conn.CloseWrite()
			var extra kmip.ResponseMessage
			if err := st.Recv(&extra); err == nil {
				rc.unsolicited = respDesc(&extra)
			}
		}
		if !terminated || !rc.stopped {
			_ = conn.Close()
		}
	}
	rc.done = true
	rc.doneAt = s.Now() - s.Jumped()
	s.Eventf("client %s done got=%d owed=%d", name, len(rc.got), len(rc.obl))
}

func execC08(x *X, scAny any) {
	sc := scAny.(*C08Sc)
	s := x.S
	w := newServerWorld(x)
	planFor := func(i int) []simnet.FaultAt {
		var out []simnet.FaultAt
		for _, f := range sc.ServerPlan {
			if f.Conn == i {
				out = append(out, simnet.FaultAt{Op: f.Op, Kind: f.Kind})
			}
		}
		return out
	}
	refused := map[string]bool{}
	for i, c := range sc.Clients {
		if c.Refused && !c.Canary {
			refused[fmt.Sprintf("c%d.s.peer", i)] = true
		}
	}
	var configure func(*kmipserver.Server)
	if len(refused) > 0 {
		configure = func(srv *kmipserver.Server) {
			srv.WithConnectHook(func(ctx context.Context) (context.Context, error) {
				if refused[kmipserver.RemoteAddr(ctx)] {
					return ctx, errors.New("refused by the connect hook")
				}
				return ctx, nil
			})
		}
	}
	w.tls = sc.TLS
	switch sc.DebugMw {
	case 1:
		w.exec.Use(kmipserver.DebugMiddleware(io.Discard, nil))
	case 2:
		w.exec.Use(kmipserver.DebugMiddleware(io.Discard, ttlv.MarshalJSON))
	}
	if sc.RouteDiscover {
		w.routeDiscover()
	}
	w.startServerWith(func(name string) simnet.EP {
		ep := simnet.EP{Chunk: sc.Chunk, Capacity: sc.Capacity}
		var idx int
		if n, _ := fmt.Sscanf(name, "c%d", &idx); n == 1 {
			ep.Rates = sc.ServerRates
			ep.Plan = planFor(idx)
		}
		return ep
	}, 0, configure)
	clients := make([]*rawClient, len(sc.Clients))
	tasks := make([]*simrt.Task, len(sc.Clients))
	for i := range sc.Clients {
		rc := &rawClient{idx: i, sc: &sc.Clients[i]}
		clients[i] = rc
		role := "client"
		if rc.sc.Canary {
			role = "canary"
		}
		tasks[i] = s.Spawn(role, func() { w.runRawClient(sc, rc) })
	}
	allDone := func() bool {
		for _, rc := range clients {
			if !rc.done {
				return false
			}
		}
		return true
	}
	_ = allDone
	if len(sc.HTTP) > 0 {
		hdl := kmipserver.NewHTTPHandler(w.exec)
		for i := range sc.HTTP {
			i := i
			s.Spawn("http", func() { w.runHTTP(x, hdl, i, sc.HTTP[i]) })
		}
	}
	s.Run()
	x.CommonOracles("C08")
	res := s.Result()
	if len(res.Panics) > 0 {
		return
	}
	// progress: a client that is reading (not one that is itself stuck writing because it does not read)
	// gets what it is owed
	for i, rc := range clients {
		if rc.done {
			continue
		}
		t := tasks[i]
		if strings.HasPrefix(t.Site(), "write-full") {
			// bilateral backpressure: the client keeps writing without reading; that is its own doing
			rc.brokeIt = true
			s.Probe("client-stuck-writing")
			continue
		}
		x.Reportf("C08.client-starves", rcKind(rc), "client %d is blocked at %s at quiescence with %d of %d responses received (server tasks alive: %v)", rc.idx, t.Site(), len(rc.got), len(rc.obl), taskList(w.serverTasksAlive()))
		return
	}
	if sc.StalledShutdown {
		// the stalled clients stay connected: the server must get rid of them by itself when it is shut down
		s.Spawn("shutdown", func() { w.shutdown() })
		s.Run()
		x.CommonOracles("C08")
		if len(s.Result().Panics) > 0 {
			return
		}
		if !w.shutdownReturned || !w.serveReturned {
			x.Reportf("C08.shutdown-hangs", "stalled-clients", "clients that stopped reading are still connected: Shutdown returned=%v Serve returned=%v (server tasks alive: %s)", w.shutdownReturned, w.serveReturned, taskList(w.serverTasksAlive()))
			return
		}
		if alive := w.serverTasksAlive(); len(alive) > 0 {
			sig, full := aliveSummary(alive)
			x.Reportf("C08.goroutines-of-ended-connections", "after-shutdown:"+sig, "after Shutdown returned %d server goroutine(s) remain: %s", len(alive), full)
		}
		for _, rc := range clients {
			if rc.conn != nil && !rc.conn.Closed() {
				_ = rc.conn.Close()
			}
		}
		return
	}
	// connections still open (clients that stopped reading or are stuck writing) are closed now
	s.Spawn("closer", func() {
		for _, rc := range clients {
			if rc.conn != nil && !rc.conn.Closed() {
				_ = rc.conn.Close()
			}
		}
	})
	s.Run()
	x.CommonOracles("C08")
	if len(s.Result().Panics) > 0 {
		return
	}
	// per connection: exactly one response per well-formed request, in order
	srvConns := w.ln.ServerConns()
	for _, rc := range clients {
		if rc.brokeIt || rc.conn == nil {
			continue
		}
		faulted := false
		for _, sc2 := range srvConns {
			if sc2.Name == rc.conn.Name[:len(rc.conn.Name)-2]+".s" && sc2.Faulted {
				faulted = true
			}
		}
		if faulted || rc.conn.Faulted {
			continue // the network broke this connection: it is not a live connection any more
		}
		if rc.unsolicited != "" {
			x.Reportf("C08.unsolicited-response", "extra", "client %d received a response beyond the %d it was owed: %s", rc.idx, len(rc.obl), rc.unsolicited)
		}
		if len(rc.got) < len(rc.obl) {
			o := rc.obl[len(rc.got)]
			sig := o.kind
			x.Reportf("C08.request-unanswered", sig, "client %d kept its connection open and read until %v: %d responses for %d obligations (first unanswered: %s %s)", rc.idx, rc.readErr, len(rc.got), len(rc.obl), o.kind, o.prefix)
			continue
		}
		for i, o := range rc.obl {
			resp := rc.got[i]
			if o.kind == "undecodable" {
				if len(resp.BatchItem) != 1 || resp.BatchItem[0].ResultStatus != kmip.ResultStatusOperationFailed || resp.BatchItem[0].ResultReason != kmip.ResultReasonInvalidMessage {
					x.Reportf("C08.undecodable-not-invalid-message", "reply", "client %d: reply to an undecodable request is %s", rc.idx, respDesc(resp))
				}
				continue
			}
			if o.kind == "request" {
				checkBatch(x, "C08", o.rs, o.prefix, allVersions, resp, w.trace, rc.conn.Name[:len(rc.conn.Name)-2]+".s.peer")
			}
		}
		if rc.sc.Canary && rc.doneAt > time.Second {
			x.Reportf("C08.canary-delayed", "canary", "well-behaved client %d needed %v of simulated time (clock jumps excluded) although its own handlers are instant", rc.idx, rc.doneAt)
		}
	}
	// nothing of ended connections is left behind
	if alive := w.serverTasksAlive(); len(alive) > 0 {
		sig, full := aliveSummary(alive)
		x.Reportf("C08.goroutines-of-ended-connections", sig, "all clients have closed their connections, at quiescence %d server goroutine(s) remain: %s", len(alive), full)
		return
	}
	// and the server can still be shut down
	s.Spawn("shutdown", func() { w.shutdown() })
	s.Run()
	x.CommonOracles("C08")
	if !w.shutdownReturned || !w.serveReturned {
		x.Reportf("C08.shutdown-hangs", "shutdown", "after all clients left, Shutdown returned=%v Serve returned=%v", w.shutdownReturned, w.serveReturned)
	}
}

func rcKind(rc *rawClient) string {
	if rc.sc.Canary {
		return "canary"
	}
	return "client"
}

func taskList(ts []*simrt.Task) string {
	_, full := aliveSummary(ts)
	return full
}

// ---- floors
func c08BaseWorkload() *C08Sc {
	ok2 := &ReqSc{Version: 4, Items: []ItemSc{{Tok: "ok"}, {Tok: "et"}}}
	return &C08Sc{Clients: []RawClientSc{
		{Acts: []ActSc{{Kind: "send", Req: ok2}, {Kind: "read"}, {Kind: "send", Req: ok2}, {Kind: "send", Req: ok2}}},
		{Canary: true, Acts: []ActSc{{Kind: "send", Req: ok2}, {Kind: "read"}}},
	}}
}

func c08FaultFloor(tier string) []*C08Sc {
	var out []*C08Sc
	for op := 1; op <= 16; op++ {
		for _, kind := range []string{"eof", "reset", "epipe", "closed", "short-write"} {
			sc := c08BaseWorkload()
			sc.ServerPlan = []ConnFault{{Conn: 0, Op: op, Kind: kind}}
			out = append(out, sc)
		}
	}
	ok2 := &ReqSc{Version: 4, Items: []ItemSc{{Tok: "ok"}, {Tok: "ps"}}}
	for enc := 0; enc < 3; enc++ {
		for _, m := range []string{"", "truncate", "short-body", "long-length", "garbage", "empty", "no-length"} {
			out = append(out, &C08Sc{HTTP: []HTTPReqSc{{Req: ok2, Enc: enc, Mangle: m, Pos: 20, ChunkLen: 7}}, Clients: []RawClientSc{{Canary: true, Acts: c08BaseWorkload().Clients[1].Acts}}})
		}
		for pos := 0; pos < 120; pos += 3 {
			out = append(out, &C08Sc{HTTP: []HTTPReqSc{{Req: ok2, Enc: enc, Mangle: "corrupt", Pos: pos, Val: 0x41 + pos%7}}, Clients: []RawClientSc{{Canary: true, Acts: c08BaseWorkload().Clients[1].Acts}}})
		}
	}
	// a control character (DEL, BEL) at every position of a body rich in text strings, in the three encodings
	rich := &ReqSc{Version: 4, Hdr: 2 | 16 | 64, Items: []ItemSc{{Tok: "ok", Op: "unrouted"}, {Tok: "ok"}}}
	for enc := 0; enc < 3; enc++ {
		for pos := 0; pos < 1100; pos++ {
			out = append(out, &C08Sc{HTTP: []HTTPReqSc{{Req: rich, Enc: enc, Mangle: "corrupt", Pos: pos, Val: []int{127, 7}[pos%2]}}})
		}
	}
	// a TLS listener: the base workload next to peers that never complete the handshake, who leave at the end or are
	// still there when the server is shut down
	for _, hello := range []string{"", "silent", "partial", "garbage"} {
		for _, stalled := range []bool{false, true} {
			sc := c08BaseWorkload()
			sc.TLS, sc.StalledShutdown = true, stalled
			sc.Clients = append([]RawClientSc{{Hello: hello, Acts: sc.Clients[0].Acts}}, sc.Clients...)
			sc.Clients = append(sc.Clients, RawClientSc{Hello: hello, Acts: sc.Clients[1].Acts})
			out = append(out, sc)
		}
	}
	// the library's DebugMiddleware in front of requests that are rejected as a whole (unsupported version, count
	// mismatch, Undo), each followed by ordinary requests on the same and on another connection
	for dm := 1; dm <= 2; dm++ {
		for _, bad := range []*ReqSc{{Version: 5, Items: []ItemSc{{Tok: "ok"}}}, {Version: 4, CountDelta: 1, Items: []ItemSc{{Tok: "ok"}}}, {Version: 4, Option: 3, Items: []ItemSc{{Tok: "ok"}, {Tok: "ok"}}}} {
			sc := c08BaseWorkload()
			sc.DebugMw = dm
			sc.Clients[0].Acts = append([]ActSc{{Kind: "send", Req: bad}, {Kind: "read"}}, sc.Clients[0].Acts...)
			out = append(out, sc)
		}
	}
	ok1 := &ReqSc{Version: 4, Items: []ItemSc{{Tok: "ok"}}}
	for _, capy := range []int{0, 16, 64} {
		for _, n := range []int{1, 3} {
			acts := []ActSc{}
			for i := 0; i < n; i++ {
				acts = append(acts, ActSc{Kind: "send", Req: ok1})
			}
			acts = append(acts, ActSc{Kind: "stop"})
			out = append(out, &C08Sc{StalledShutdown: true, Capacity: capy, Clients: []RawClientSc{{Acts: acts}, {Canary: true, Acts: c08BaseWorkload().Clients[1].Acts}}})
		}
	}
	for _, pad := range []int{9000, 70000, 80000, 140000, 300000, 900000} {
		for _, ch := range []int{simnet.ChunkMax, simnet.ChunkRandom} {
			big := &ReqSc{Version: 4, Pad: pad, Items: []ItemSc{{Tok: "ok"}, {Tok: "ok"}}}
			out = append(out, &C08Sc{Chunk: ch, Clients: []RawClientSc{{Acts: []ActSc{{Kind: "send", Req: big}, {Kind: "read"}, {Kind: "send", Req: ok1}, {Kind: "read"}}}, {Canary: true, Acts: c08BaseWorkload().Clients[1].Acts}}})
		}
	}
	for _, acts := range [][]ActSc{nil, {{Kind: "send", Req: ok1}}} {
		for _, ch := range []int{simnet.ChunkMax, simnet.ChunkByte} {
			out = append(out, &C08Sc{Chunk: ch, Clients: []RawClientSc{{Refused: true, Acts: acts}, {Canary: true, Acts: c08BaseWorkload().Clients[1].Acts}}})
		}
	}
	for _, p := range c08Presets {
		out = append(out, &C08Sc{Clients: []RawClientSc{{Acts: []ActSc{{Kind: "preset", Preset: p}}}, {Canary: true, Acts: c08BaseWorkload().Clients[1].Acts}}})
	}
	return out
}

func c08SweepFloor(tier string) []*C08Sc {
	ok1 := &ReqSc{Version: 4, Items: []ItemSc{{Tok: "ok"}}}
	out := []*C08Sc{
		{Clients: []RawClientSc{{Acts: []ActSc{{Kind: "send", Req: ok1}, {Kind: "close"}}}, {Canary: true, Acts: []ActSc{{Kind: "send", Req: ok1}, {Kind: "read"}}}}},
	}
	if tier == "thorough" {
		out = append(out,
			&C08Sc{Clients: []RawClientSc{{Acts: []ActSc{{Kind: "send", Req: ok1}, {Kind: "send", Req: ok1}, {Kind: "reset"}}}}},
			&C08Sc{Clients: []RawClientSc{{Acts: []ActSc{{Kind: "send", Req: ok1}, {Kind: "yield", N: 3}, {Kind: "close"}}}}},
			&C08Sc{Clients: []RawClientSc{{Acts: []ActSc{{Kind: "preset", Preset: "bad-enum-type"}, {Kind: "close"}}}}},
		)
	}
	return out
}

func init() {
	register(&Prop{
		ID: "C08", Engine: "server",
		Generate: genC08, Decode: decodeC08, Execute: execC08,
		Config: func(any) simrt.Config {
			return simrt.Config{MaxSteps: 60000, IdleProbe: 4 * time.Second, ClockJumpPM: 4}
		},
		Runs: clientRuns(150000, 8000000),
		Floors: []Floor{
			{Name: "single-server-fault", Count: func(t string) int { return len(c08FaultFloor(t)) }, Scenario: func(t string, i int) any { return c08FaultFloor(t)[i] }},
			{Name: "single-preemption", Sweep: true, Count: func(t string) int { return len(c08SweepFloor(t)) }, Scenario: func(t string, i int) any { return c08SweepFloor(t)[i] }},
		},
		Rule:        "one evaluation = one simulated run of the real kmipserver with 1-8 scripted raw clients (whole/fragmented/pipelined requests, client-originated responses, corrupted and preset undecodable frames, garbage, oversize headers, half-close, close, reset, stop reading) plus 1-2 never-faulted canary clients, scripted handler outcomes (ok, typed/plain error, five panic kinds, slow with/without honouring ctx), and server-side I/O faults; distinct = distinct event-log hashes among runs with at least one fault or preemption",
		Components:  serverComponents,
		Assumptions: []string{"whether a frame is well-formed / correctly framed but undecodable / decoder-panicking is decided by the library's own decoder under recover, outside the simulation", "obligations are void on connections broken by the client or by an injected network fault", "rewriter is semantics-preserving"},
	})
}

// exported for ad-hoc probes
func PresetFrame(n string) []byte { return presetFrame(n) }
func Classify(f []byte) string    { return classify(f) }
