package harness

import (
	"context"
	"encoding/json"
	"fmt"
	"net"
	"slices"
	"time"

	"kmipverif/simnet"
	"kmipverif/simrt"

	"github.com/ovh/kmip-go"
	"github.com/ovh/kmip-go/kmipclient"
	"github.com/ovh/kmip-go/kmipserver"
	"github.com/ovh/kmip-go/payloads"
	"github.com/ovh/kmip-go/ttlv"
)

// ---- C13: version negotiation adopts the highest common protocol version

var allVersions = []kmip.ProtocolVersion{kmip.V1_0, kmip.V1_1, kmip.V1_2, kmip.V1_3, kmip.V1_4}

func setOf(mask int) []kmip.ProtocolVersion {
	var out []kmip.ProtocolVersion
	for i, v := range allVersions {
		if mask&(1<<i) != 0 {
			out = append(out, v)
		}
	}
	return out
}

const (
	behConformant = iota
	behUnsupported
	behForeign   // lists its whole set, whatever the client offered
	behUnordered // intersection, ascending
	behDuplicates
	behEmpty
	behZigzag          // common versions: second highest first, then descending, the highest last
	behPermuted        // common versions in a permutation chosen by the scenario's order seed
	behUnsupportedBare // discovery unsupported, reported as a message-level error: one failed item without Operation
	behForeignMajor    // the common versions plus versions of other majors whose minors collide with 1.x ones (2.1, 2.0, 3.0, 0.4)
	nBehaviours
)

var behNames = []string{"conformant", "discovery-unsupported", "lists-unoffered", "unordered", "duplicates", "empty-list", "zigzag", "permuted", "discovery-unsupported-bare", "foreign-majors"}

type C13Sc struct {
	Client   int  `json:"client"`    // bitmask over 1.0..1.4, non-empty
	Server   int  `json:"server"`    // bitmask; 0 = empty set (real server: default set)
	Beh      int  `json:"behaviour"` // scripted server only
	Enforce  int  `json:"enforce"`   // -1: negotiate; else index of the enforced version
	Real     bool `json:"real"`      // real kmipserver instead of the scripted one
	Order    int  `json:"order"`     // permutation seed for the order in which the client set is configured
	Chunk    int  `json:"chunk,omitempty"`
	StallPM  int  `json:"stall_pm,omitempty"`
	FollowUp bool `json:"follow_up"`
	Clone    bool `json:"clone"`
	// Default: the client is configured without WithKmipVersions (the library's default set, all five versions)
	Default bool `json:"default,omitempty"`
	// Second: another client of the same process dials a conformant server between the first client's dial and
	// its follow-up request (state shared between clients must not change what the first one sends)
	Second *C13Second `json:"second,omitempty"`
	// Reconnect: the scripted server closes the connection right after its first ordinary reply; a second
	// follow-up request then travels on a re-dialled connection and must carry the same adopted version
	Reconnect bool `json:"reconnect,omitempty"`
	// Cluster: the client connects through DialClusterContext (same negotiation, other entry point):
	// 1 = with WithRetryTimeout, 2 = without
	Cluster int `json:"cluster,omitempty"`
	// Discover: after the dial the client also sends a Discover Versions request of its own, alone and inside a
	// batch (scripted server only): these are ordinary requests and carry the adopted version like any other
	Discover bool `json:"discover,omitempty"`
	// RespHdr (scripted server): the protocol version in the header of the discovery reply. 0 = the request's (the
	// discovery request travels under a version of the client's choosing, not one the server need support) | 1 the
	// server's highest version | 2 always 1.0 | 3 always 1.4. What is negotiated is in the payload, not here
	RespHdr int `json:"resp_hdr,omitempty"`
	// Drops (scripted server, no enforced version): the server hangs up on the first Drops requests it reads instead
	// of answering (a restarting server, a draining balancer), then behaves as configured. Up to three are absorbed
	// by the client's transport; with more the dial may fail, but if it succeeds it has negotiated what the server
	// advertises like any other dial (a server that hangs up has not said that it lacks discovery)
	Drops int `json:"drops,omitempty"`
	// ClientExtra: the client is also configured for a version the library has no name for: 1 = its set plus 2.0,
	// 2 = 2.0 alone. The configured set is what the caller says it is
	ClientExtra int `json:"client_extra,omitempty"`
}

type C13Second struct {
	Client  int  `json:"client"`
	Default bool `json:"default,omitempty"`
	Server  int  `json:"server"`
	// Reuse: the Option value that configures this client's set has already been applied once, in another Dial of
	// the same process, behind the first client's set (options are values: applying one must not change it)
	Reuse bool `json:"reuse,omitempty"`
	// SameAddr: this client dials the very address string the first client dialled (its dialer leads to its own
	// server all the same: what answers behind an address may change between two dials)
	SameAddr bool `json:"same_addr,omitempty"`
}

func genC13(g *simrt.Tape, tier string) any {
	sc := &C13Sc{Client: 1 + g.Draw(31), Server: g.Draw(32), Beh: g.Draw(nBehaviours), Enforce: -1, FollowUp: true, Clone: g.Draw(2) == 1}
	if g.Draw(6) == 0 {
		sc.Enforce = g.Draw(5)
	}
	sc.Real = g.Draw(3) == 0
	if g.Draw(5) == 0 {
		sc.Default = true
		sc.Client = 31
	}
	if g.Draw(4) == 0 {
		sc.Second = &C13Second{Client: 1 + g.Draw(31), Server: 1 + g.Draw(31), Default: g.Draw(2) == 0, Reuse: g.Draw(2) == 0, SameAddr: g.Draw(2) == 0}
		if sc.Second.Default {
			sc.Second.Client = 31
		}
	}
	sc.Reconnect = !sc.Real && g.Draw(3) == 0
	sc.Order = g.Draw(120)
	if g.Draw(4) == 0 {
		sc.Cluster = 1 + g.Draw(2)
	}
	sc.Discover = g.Draw(3) == 0
	if !sc.Real && g.Draw(3) == 0 {
		sc.RespHdr = 1 + g.Draw(3)
	}
	if !sc.Real && !sc.Reconnect && sc.Enforce < 0 && g.Draw(5) == 0 {
		sc.Drops = 1 + g.Draw(5)
	}
	if !sc.Default && sc.Enforce < 0 && g.Draw(6) == 0 {
		sc.ClientExtra = 1 + g.Draw(2)
	}
	sc.Chunk = []int{simnet.ChunkMax, simnet.ChunkRandom, simnet.ChunkByte}[g.Draw(3)]
	if g.Draw(3) == 0 {
		sc.StallPM = 100
	}
	return sc
}

func decodeC13(raw json.RawMessage) (any, error) {
	sc := &C13Sc{}
	return sc, json.Unmarshal(raw, sc)
}

// the grid, swept completely in every run
func c13Grid(tier string) []*C13Sc {
	var out []*C13Sc
	for c := 1; c < 32; c++ {
		for s := 0; s < 32; s++ {
			for b := 0; b < nBehaviours; b++ {
				out = append(out, &C13Sc{Client: c, Server: s, Beh: b, Enforce: -1, FollowUp: true, Clone: b == 0, Discover: b == 0 || b == behUnsupported})
			}
			for o := 1; o <= 3; o++ {
				out = append(out, &C13Sc{Client: c, Server: s, Beh: behPermuted, Order: o, Enforce: -1, FollowUp: true})
				if o < 3 {
					out = append(out, &C13Sc{Client: c, Server: s, Beh: behForeignMajor, Order: o, Enforce: -1, FollowUp: true})
				}
				if (c+s)%5 == o {
					// a client also (or only) configured for 2.0, against servers that list 1.x only and one that lists 2.x too
					out = append(out, &C13Sc{Client: c, Server: s, Beh: []int{behConformant, behForeignMajor, behUnsupported}[(c+s+o)%3], ClientExtra: 1 + (c+s)%2, Enforce: -1, FollowUp: true})
					out = append(out, &C13Sc{Client: c, Server: s, Real: true, ClientExtra: 1 + (c+s)%2, Enforce: -1, FollowUp: true})
				}
				if (c+s)%4 == o {
					// the server hangs up on the first requests of the dial
					out = append(out, &C13Sc{Client: c, Server: s, Beh: []int{behConformant, behUnsupported, behForeign}[(c+s)%3], Drops: 1 + (c+2*s+o)%5, Enforce: -1, FollowUp: true})
				}
				// the discovery reply travels under a header version of the server's choosing
				out = append(out, &C13Sc{Client: c, Server: s, Beh: []int{behConformant, behUnsupported, behUnsupportedBare}[(c+s+o)%3], RespHdr: o, Enforce: -1, FollowUp: true})
			}
			out = append(out, &C13Sc{Client: c, Server: s, Real: true, Enforce: -1, FollowUp: true, Clone: true})
		}
		// enforced versions: no discovery at all
		for e := 0; e < 5; e++ {
			for _, b := range []int{behConformant, behUnsupported, behEmpty} {
				out = append(out, &C13Sc{Client: c, Server: 31, Beh: b, Enforce: e, FollowUp: true, Clone: true, Discover: true})
			}
			out = append(out, &C13Sc{Client: c, Server: 0, Real: true, Enforce: e, FollowUp: true})
		}
	}
	for c := 1; c < 32; c += 3 {
		for srv := 1; srv < 32; srv += 2 {
			out = append(out, &C13Sc{Client: c, Server: srv, Beh: behConformant, Enforce: -1, FollowUp: true, Reconnect: true, Clone: true})
		}
		for e := 0; e < 5; e++ {
			out = append(out, &C13Sc{Client: c, Server: 31, Beh: behConformant, Enforce: e, FollowUp: true, Reconnect: true})
		}
	}
	// the cluster entry point: same negotiation, with and without a retry timeout
	for c := 1; c < 32; c += 2 {
		for srv := 0; srv < 32; srv += 3 {
			for cl := 1; cl <= 2; cl++ {
				out = append(out, &C13Sc{Client: c, Server: srv, Beh: behConformant, Enforce: -1, FollowUp: true, Clone: true, Cluster: cl})
			}
		}
	}
	// default-set clients, alone and followed by a second default-set client against a narrower server
	for srv := 1; srv < 32; srv++ {
		out = append(out, &C13Sc{Client: 31, Default: true, Server: srv, Beh: behConformant, Enforce: -1, FollowUp: true, Clone: true})
		for _, s2 := range []int{1, 3, 7, 12, 16, 21} {
			out = append(out, &C13Sc{Client: 31, Default: true, Server: srv, Beh: behConformant, Enforce: -1, FollowUp: true,
				Second: &C13Second{Client: 31, Default: true, Server: s2}})
			out = append(out, &C13Sc{Client: 31, Default: true, Server: srv, Beh: behForeign, Enforce: -1, FollowUp: true,
				Second: &C13Second{Client: 1 + (srv*7)%31, Server: s2, Reuse: srv%2 == 0}})
			out = append(out, &C13Sc{Client: 1 + (srv*5)%31, Server: srv, Beh: behConformant, Enforce: -1, FollowUp: true,
				Second: &C13Second{Client: 1 + (srv*11)%31, Server: s2, SameAddr: true}})
		}
	}
	return out
}

func maxVersion(vs []kmip.ProtocolVersion) (kmip.ProtocolVersion, bool) {
	if len(vs) == 0 {
		return kmip.ProtocolVersion{}, false
	}
	best := vs[0]
	for _, v := range vs[1:] {
		if ttlv.CompareVersions(v, best) > 0 {
			best = v
		}
	}
	return best, true
}

func intersect(a, b []kmip.ProtocolVersion) []kmip.ProtocolVersion {
	var out []kmip.ProtocolVersion
	for _, v := range a {
		if slices.Contains(b, v) && !slices.Contains(out, v) {
			out = append(out, v)
		}
	}
	return out
}

func permute(vs []kmip.ProtocolVersion, seed int) []kmip.ProtocolVersion {
	out := slices.Clone(vs)
	r := simrt.NewRng(uint64(seed) + 1)
	for i := len(out) - 1; i > 0; i-- {
		j := r.Intn(i + 1)
		out[i], out[j] = out[j], out[i]
	}
	return out
}

func execC13(x *X, scAny any) {
	sc := scAny.(*C13Sc)
	s := x.S
	cset := setOf(sc.Client)
	v20 := kmip.ProtocolVersion{ProtocolVersionMajor: 2, ProtocolVersionMinor: 0}
	switch {
	case sc.Default || sc.Enforce >= 0:
	case sc.ClientExtra == 1:
		cset = append(cset, v20)
	case sc.ClientExtra == 2:
		cset = []kmip.ProtocolVersion{v20}
	}
	sset := setOf(sc.Server)
	discoveries := 0
	dialled, finished := false, false
	var advertised []kmip.ProtocolVersion
	var seen []kmip.ProtocolVersion // header versions of non-discovery requests

	csc := &ClientSc{Prop: "C13", Chunk: sc.Chunk}
	if sc.Reconnect {
		// request #0 is the discovery exchange (when there is one), the next one is the first follow-up
		csc.Behav = []ReqBehav{{}, {CloseAfter: true}, {}, {}, {}, {}, {}, {}}
		if sc.Enforce >= 0 {
			csc.Behav = []ReqBehav{{CloseAfter: true}, {}, {}, {}, {}, {}, {}, {}}
		}
	}
	if sc.Drops > 0 && !sc.Reconnect && !sc.Real && sc.Enforce < 0 {
		csc.Behav = make([]ReqBehav, sc.Drops+60)
		for i := 0; i < sc.Drops; i++ {
			csc.Behav[i].CloseBefore = true
		}
	}
	w := newClientWorld(x, csc)
	w.loose = false
	w.respond = func(w *clientWorld, req *kmip.RequestMessage, connIdx int) *kmip.ResponseMessage {
		if len(req.BatchItem) == 1 && !dialled {
			if pl, ok := req.BatchItem[0].RequestPayload.(*payloads.DiscoverVersionsRequestPayload); ok {
				discoveries++
				resp := &kmip.ResponseMessage{Header: kmip.ResponseHeader{ProtocolVersion: req.Header.ProtocolVersion, TimeStamp: time.Now(), BatchCount: 1}}
				switch sc.RespHdr {
				case 1:
					if hv, ok := maxVersion(sset); ok {
						resp.Header.ProtocolVersion = hv
					}
				case 2:
					resp.Header.ProtocolVersion = kmip.V1_0
				case 3:
					resp.Header.ProtocolVersion = kmip.V1_4
				}
				ri := kmip.ResponseBatchItem{Operation: kmip.OperationDiscoverVersions, ResultStatus: kmip.ResultStatusSuccess}
				offered := pl.ProtocolVersion
				var list []kmip.ProtocolVersion
				common := intersect(sset, offered)
				if len(offered) == 0 {
					common = slices.Clone(sset)
				}
				slices.SortFunc(common, func(a, b kmip.ProtocolVersion) int { return ttlv.CompareVersions(b, a) })
				switch sc.Beh {
				case behConformant:
					list = common
				case behUnsupported, behUnsupportedBare:
					if sc.Beh == behUnsupportedBare {
						ri.Operation = 0 // (the Operation element is optional in a response item; a server that rejects
						// the whole message does not echo it)
					}
					ri.ResultStatus = kmip.ResultStatusOperationFailed
					ri.ResultReason = kmip.ResultReasonOperationNotSupported
					ri.ResultMessage = "Operation not supported"
					resp.BatchItem = []kmip.ResponseBatchItem{ri}
					return resp
				case behForeign:
					list = slices.Clone(sset)
					slices.SortFunc(list, func(a, b kmip.ProtocolVersion) int { return ttlv.CompareVersions(b, a) })
				case behUnordered:
					list = slices.Clone(common)
					slices.SortFunc(list, ttlv.CompareVersions)
				case behDuplicates:
					list = append(slices.Clone(common), common...)
					slices.SortFunc(list, ttlv.CompareVersions)
				case behEmpty:
					list = nil
				case behZigzag:
					list = slices.Clone(common)
					if len(list) > 1 {
						list = append(list[1:], list[0])
					}
				case behPermuted:
					list = permute(common, sc.Order+7)
				case behForeignMajor:
					// a server that also speaks KMIP 2.x / 3.x (or something older) returns its whole list
					hi := []kmip.ProtocolVersion{{ProtocolVersionMajor: 3, ProtocolVersionMinor: 0}, {ProtocolVersionMajor: 2, ProtocolVersionMinor: 1}, {ProtocolVersionMajor: 2, ProtocolVersionMinor: 0}}
					lo := []kmip.ProtocolVersion{{ProtocolVersionMajor: 0, ProtocolVersionMinor: 4}}
					switch sc.Order % 3 {
					case 0:
						list = append(append(hi, common...), lo...)
					case 1:
						list = append(append(slices.Clone(common), hi...), lo...)
					default:
						list = append(append(lo, hi[1:]...), common...)
					}
				}
				advertised = list
				ri.ResponsePayload = &payloads.DiscoverVersionsResponsePayload{ProtocolVersion: list}
				resp.BatchItem = []kmip.ResponseBatchItem{ri}
				return resp
			}
		}
		seen = append(seen, req.Header.ProtocolVersion)
		return echoResponse(req)
	}

	// real server variant
	var ln *simnet.Listener
	var srv *kmipserver.Server
	dialer := w.dialer
	if sc.Real {
		ln = simnet.NewListener(s)
		ln.ServerEP = func(string) simnet.EP { return simnet.EP{Chunk: sc.Chunk} }
		exec := kmipserver.NewBatchExecutor()
		if len(sset) > 0 {
			exec.SetSupportedProtocolVersions(slices.Clone(sset)...)
		}
		exec.Route(kmip.OperationActivate, kmipserver.HandleFunc(func(ctx context.Context, p *payloads.ActivateRequestPayload) (*payloads.ActivateResponsePayload, error) {
			seen = append(seen, kmipserver.GetProtocolVersion(ctx))
			return &payloads.ActivateResponsePayload{UniqueIdentifier: p.UniqueIdentifier}, nil
		}))
		srv = kmipserver.NewServer(ln, exec)
		s.Spawn("serve", func() { _ = srv.Serve() })
		n := 0
		dialer = func(ctx context.Context) (net.Conn, error) {
			n++
			ep := simnet.EP{Chunk: sc.Chunk}
			if sc.StallPM > 0 {
				ep.Rates = map[string]int{"stall": sc.StallPM}
			}
			return ln.Dial(fmt.Sprintf("k%d", n), ep)
		}
	} else if sc.StallPM > 0 {
		csc.Conns = []ConnSc{{Rates: map[string]int{"stall": sc.StallPM}}, {Rates: map[string]int{"stall": sc.StallPM}}}
	}

	second := &c13Second{}
	var cl *kmipclient.Client
	var dialErr error
	var followErr, cloneErr error
	var cloneVersion kmip.ProtocolVersion
	nFollow := 0
	s.Spawn("client", func() {
		o := []kmipclient.Option{kmipclient.WithDialerUnsafe(dialer)}
		if !sc.Default {
			// the configured set is what matters, not how it was spelled: one call or two, with or without repeats
			vs := permute(cset, sc.Order)
			switch sc.Order % 4 {
			case 1:
				k := len(vs) / 2
				o = append(o, kmipclient.WithKmipVersions(vs[:k]...), kmipclient.WithKmipVersions(vs[k:]...))
			case 2:
				o = append(o, kmipclient.WithKmipVersions(append(slices.Clone(vs), vs[0])...))
			case 3:
				o = append(o, kmipclient.WithKmipVersions(vs...), kmipclient.WithKmipVersions(vs[len(vs)-1]))
			default:
				o = append(o, kmipclient.WithKmipVersions(vs...))
			}
		}
		if sc.Enforce >= 0 {
			o = append(o, kmipclient.EnforceVersion(allVersions[sc.Enforce]))
		}
		switch sc.Cluster {
		case 1:
			cl, dialErr = kmipclient.DialClusterContext(context.Background(), []string{"sim", "sim-b"}, append(o, kmipclient.WithRetryTimeout(time.Second))...)
		case 2:
			cl, dialErr = kmipclient.DialClusterContext(context.Background(), []string{"sim", "sim-b"}, o...)
		default:
			cl, dialErr = kmipclient.DialContext(context.Background(), "sim", o...)
		}
		dialled = true
		if dialErr == nil && cl != nil {
			if sc.Second != nil {
				second.run(x, sc)
			}
			if sc.FollowUp {
				nFollow++
				_, followErr = cl.Request(context.Background(), &payloads.ActivateRequestPayload{UniqueIdentifier: "follow"})
				if sc.Reconnect && followErr == nil {
					// the call that notices the closed connection may fail (C11 allows that); the one after it travels
					// on a fresh connection. What matters here is the version every request that reaches the server carries.
					for i := 0; i < 2; i++ {
						if _, err := cl.Request(context.Background(), &payloads.ActivateRequestPayload{UniqueIdentifier: "follow-after-reconnect"}); err == nil {
							break
						}
					}
				}
			}
			if sc.Discover && !sc.Real && followErr == nil && !sc.Reconnect {
				// (the application asks about versions of its own choosing, fewer than it is configured for, or none:
				// what it is told does not renegotiate anything)
				nFollow += 5
				lowest := cset[0]
				for _, v := range cset {
					if ttlv.CompareVersions(v, lowest) < 0 {
						lowest = v
					}
				}
				if _, err := cl.Request(context.Background(), &payloads.DiscoverVersionsRequestPayload{}); err != nil {
					followErr = err
				}
				if _, err := cl.Batch(context.Background(), &payloads.ActivateRequestPayload{UniqueIdentifier: "in-batch"}, &payloads.DiscoverVersionsRequestPayload{}); err != nil && followErr == nil {
					followErr = err
				}
				if _, err := cl.Request(context.Background(), &payloads.DiscoverVersionsRequestPayload{ProtocolVersion: []kmip.ProtocolVersion{lowest}}); err != nil && followErr == nil {
					followErr = err
				}
				if _, err := cl.Batch(context.Background(), &payloads.DiscoverVersionsRequestPayload{ProtocolVersion: []kmip.ProtocolVersion{lowest, kmip.V1_0}}, &payloads.ActivateRequestPayload{UniqueIdentifier: "after-discover-in-batch"}); err != nil && followErr == nil {
					followErr = err
				}
				if _, err := cl.Request(context.Background(), &payloads.ActivateRequestPayload{UniqueIdentifier: "after-discover"}); err != nil && followErr == nil {
					followErr = err
				}
			}
			if sc.Clone {
				c2, err := cl.Clone()
				cloneErr = err
				if err == nil {
					cloneVersion = c2.Version()
					nFollow++
					_, cloneErr = c2.Request(context.Background(), &payloads.ActivateRequestPayload{UniqueIdentifier: "clone"})
					_ = c2.Close()
				}
			}
			_ = cl.Close()
		}
		if srv != nil {
			_ = srv.Shutdown()
		}
		finished = true
	})
	s.Run()
	x.CommonOracles("C13")
	if len(s.Result().Panics) > 0 {
		return
	}
	if !dialled || !finished {
		x.Reportf("C13.hang", "dial", "dial/follow-up has not finished at quiescence (dialled=%v)", dialled)
		return
	}
	cell := fmt.Sprintf("client=%v server=%v", cset, sset)
	if sc.Real {
		cell += " real-server"
	} else {
		cell += " behaviour=" + behNames[sc.Beh]
	}

	// ---- reference model (from the property statement)
	type expectation struct {
		fail    bool
		version kmip.ProtocolVersion
		full    bool // false: only membership is asserted (deliberate weakening, DESIGN §3 C13)
	}
	var exp expectation
	exp.full = true
	switch {
	case sc.Enforce >= 0:
		exp.version = allVersions[sc.Enforce]
	case sc.Real:
		eff := sset
		if len(eff) == 0 {
			eff = allVersions
		}
		common := intersect(cset, eff)
		if !slices.Contains(eff, kmip.V1_1) {
			exp.full = false // the discovery request itself (framed as 1.1) is outside the server's set
		}
		if v, ok := maxVersion(common); ok {
			exp.version = v
		} else {
			exp.fail = true
		}
	case sc.Beh == behUnsupported || sc.Beh == behUnsupportedBare:
		if slices.Contains(cset, kmip.V1_0) {
			exp.version = kmip.V1_0
		} else {
			exp.fail = true
		}
	default:
		var adv []kmip.ProtocolVersion
		switch sc.Beh {
		case behForeign:
			adv = sset
		case behEmpty:
			adv = nil
		default:
			adv = intersect(sset, cset)
		}
		if sc.ClientExtra != 0 && !sc.Default {
			adv = advertised // (what the scripted server actually listed: it may speak 2.0 as well)
		}
		if v, ok := maxVersion(intersect(cset, adv)); ok {
			exp.version = v
		} else {
			exp.fail = true
		}
	}
	_ = advertised

	if sc.Enforce >= 0 && discoveries > 0 {
		x.Reportf("C13.discovery-despite-enforced-version", "enforced", "%s: %d discovery request(s) on the wire although version %v is enforced", cell, discoveries, allVersions[sc.Enforce])
	}
	if dialErr != nil {
		if sc.Drops > 3 && !sc.Reconnect && !sc.Real && sc.Enforce < 0 {
			return // the server hung up more often than the transport re-sends: the dial may fail
		}
		if !exp.fail && exp.full {
			x.Reportf("C13.dial-fails", fmt.Sprintf("expected-%v", exp.version), "%s: Dial failed with %q, the highest common version is %v", cell, dialErr, exp.version)
		}
		return
	}
	adopted := cl.Version()
	inClient := slices.Contains(cset, adopted) || (sc.Enforce >= 0 && adopted == allVersions[sc.Enforce])
	if !inClient {
		x.Reportf("C13.adopted-not-in-client-set", "membership", "%s: adopted %v which the client is not configured for", cell, adopted)
		return
	}
	if exp.fail && exp.full {
		x.Reportf("C13.dial-succeeds-without-common-version", "no-common", "%s: Dial succeeded with %v although there is no common version", cell, adopted)
		return
	}
	if exp.full && adopted != exp.version {
		sig := "not-highest-common"
		if (sc.Beh == behUnsupported || sc.Beh == behUnsupportedBare) && !sc.Real && sc.Enforce < 0 {
			sig = "fallback"
		}
		x.Reportf("C13.wrong-version", sig, "%s: adopted %v, expected %v", cell, adopted, exp.version)
		return
	}
	if !exp.full && sc.Real {
		eff := sset
		if !slices.Contains(eff, adopted) {
			x.Reportf("C13.adopted-not-in-server-set", "membership", "%s: adopted %v which the server does not support", cell, adopted)
			return
		}
		s.Probe("weakened-cell")
	}
	// every later request carries the adopted version
	if sc.Real && !slices.Contains(orDefault(sset), adopted) {
		return // an enforced version the real server rejects: requests fail, nothing to read
	}
	if followErr != nil && !sc.Real {
		x.Reportf("C13.follow-up-fails", "request", "%s: request after a successful dial failed: %v", cell, followErr)
	}
	if sc.Clone && cloneErr == nil && cloneVersion != adopted {
		x.Reportf("C13.clone-has-other-version", "clone", "%s: clone reports %v, original adopted %v", cell, cloneVersion, adopted)
	}
	for _, v := range seen {
		if v != adopted {
			x.Reportf("C13.request-carries-other-version", "header", "%s: adopted %v but a later request carried %v", cell, adopted, v)
			break
		}
	}
	second.judge(x, sc)
	if followErr == nil && cloneErr == nil && len(seen) != nFollow && !sc.Reconnect {
		x.Reportf("C13.harness", "seen-count", "%s: %d follow-up requests succeeded but the server saw %d", cell, nFollow, len(seen))
	}
}

func orDefault(s []kmip.ProtocolVersion) []kmip.ProtocolVersion {
	if len(s) == 0 {
		return allVersions
	}
	return s
}

func init() {
	register(&Prop{
		ID: "C13", Engine: "client",
		Generate: genC13, Decode: decodeC13, Execute: execC13,
		Config: func(any) simrt.Config { return simrt.Config{MaxSteps: 60000, IdleProbe: 4 * time.Second} },
		Runs:   clientRuns(80000, 5000000),
		Floors: []Floor{{Name: "grid", Count: func(t string) int { return len(c13Grid(t)) }, Scenario: func(t string, i int) any { return c13Grid(t)[i] }}},
		Rule:   "one evaluation = one simulated dial (real kmipclient negotiation against a scripted server with one of eight behaviours (conformant, discovery unsupported, lists unoffered versions, ascending, duplicates, empty, zigzag, seeded permutation), or against the real kmipserver) followed by one request on the original and one on a cloned client; the grid floor sweeps all 31 client sets x 32 server sets x 8 behaviours (+3 permutations) + real server + enforced versions completely; distinct = distinct event-log hashes among runs with at least one chunked read, stall or preemption",
		Components: map[string][]string{
			"real": {"kmipclient (DialContext, negotiateVersion, Clone, BatchOpt)", "kmipserver (Server, BatchExecutor.handleDiscover, SetSupportedProtocolVersions) in the real-server cells", "ttlv.Stream and codec"},
			"stub": {"network (simnet)", "scripted server with ten discovery behaviours", "clock (synctest)", "TLS (absent)"},
		},
		Assumptions: []string{"cells where the real server's set lacks 1.1 assert membership only (the discovery request is framed as 1.1; whether its rejection counts as 'discovery unsupported' is not settled by the statement)", "rewriter is semantics-preserving"},
	})
}

// c13Second is the interloper: a second client of the same process with its own conformant scripted server.
type c13Second struct {
	ran     bool
	dialErr error
	adopted kmip.ProtocolVersion
	seen    []kmip.ProtocolVersion
	reqErr  error
}

func (c *c13Second) run(x *X, sc *C13Sc) {
	c.ran = true
	cset := setOf(sc.Second.Client)
	sset := setOf(sc.Second.Server)
	w2 := newClientWorld(x, &ClientSc{Prop: "C13", Chunk: sc.Chunk})
	w2.respond = func(w *clientWorld, req *kmip.RequestMessage, connIdx int) *kmip.ResponseMessage {
		if len(req.BatchItem) == 1 {
			if pl, ok := req.BatchItem[0].RequestPayload.(*payloads.DiscoverVersionsRequestPayload); ok {
				common := intersect(sset, pl.ProtocolVersion)
				slices.SortFunc(common, func(a, b kmip.ProtocolVersion) int { return ttlv.CompareVersions(b, a) })
				return &kmip.ResponseMessage{Header: kmip.ResponseHeader{ProtocolVersion: req.Header.ProtocolVersion, TimeStamp: time.Now(), BatchCount: 1},
					BatchItem: []kmip.ResponseBatchItem{{Operation: kmip.OperationDiscoverVersions, ResultStatus: kmip.ResultStatusSuccess,
						ResponsePayload: &payloads.DiscoverVersionsResponsePayload{ProtocolVersion: common}}}}
			}
		}
		c.seen = append(c.seen, req.Header.ProtocolVersion)
		return echoResponse(req)
	}
	o := []kmipclient.Option{kmipclient.WithDialerUnsafe(w2.dialer)}
	addr2 := "sim2"
	if sc.Second.SameAddr {
		addr2 = "sim"
	}
	if !sc.Second.Default {
		own := kmipclient.WithKmipVersions(permute(cset, sc.Order+3)...)
		if sc.Second.Reuse {
			if d, err := kmipclient.DialContext(context.Background(), addr2, kmipclient.WithDialerUnsafe(w2.dialer), kmipclient.WithKmipVersions(setOf(sc.Client)...), own); err == nil && d != nil {
				_ = d.Close()
			}
		}
		o = append(o, own)
	}
	c2, err := kmipclient.DialContext(context.Background(), addr2, o...)
	c.dialErr = err
	if err != nil || c2 == nil {
		return
	}
	c.adopted = c2.Version()
	_, c.reqErr = c2.Request(context.Background(), &payloads.ActivateRequestPayload{UniqueIdentifier: "second"})
	_ = c2.Close()
}

func (c *c13Second) judge(x *X, sc *C13Sc) {
	if !c.ran {
		return
	}
	cset, sset := setOf(sc.Second.Client), setOf(sc.Second.Server)
	cell := fmt.Sprintf("second client=%v server=%v", cset, sset)
	want, ok := maxVersion(intersect(cset, sset))
	switch {
	case c.dialErr != nil && ok:
		x.Reportf("C13.dial-fails", "second-client", "%s: Dial failed with %q, the highest common version is %v", cell, c.dialErr, want)
	case c.dialErr == nil && !ok:
		x.Reportf("C13.dial-succeeds-without-common-version", "second-client", "%s: Dial succeeded with %v", cell, c.adopted)
	case c.dialErr == nil && c.adopted != want:
		x.Reportf("C13.wrong-version", "second-client", "%s: adopted %v, expected %v (a client of the same process dialled before)", cell, c.adopted, want)
	case c.dialErr == nil:
		for _, v := range c.seen {
			if v != c.adopted {
				x.Reportf("C13.request-carries-other-version", "second-client", "%s: adopted %v but its request carried %v", cell, c.adopted, v)
				break
			}
		}
	}
}
