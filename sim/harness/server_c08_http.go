package harness

import (
	"bytes"
	"context"
	"fmt"
	"io"
	"net/http"
	"net/http/httptest"
	"strconv"

	"kmipverif/simrt"

	"github.com/ovh/kmip-go"
	"github.com/ovh/kmip-go/kmipserver"
	"github.com/ovh/kmip-go/ttlv"
)

// ---- C08, secondary surface: the HTTP handler (kmipserver/http.go), called directly by simulated tasks

type HTTPReqSc struct {
	Req      *ReqSc `json:"req"`
	Enc      int    `json:"enc"`              // 0 binary 1 xml 2 json
	Method   string `json:"method,omitempty"` // "" = POST
	CType    string `json:"ctype,omitempty"`  // "" = the encoding's content type
	Mangle   string `json:"mangle,omitempty"` // "" | corrupt | truncate | short-body | long-length | garbage | empty | no-length
	Pos      int    `json:"pos,omitempty"`
	Val      int    `json:"val,omitempty"`
	ChunkLen int    `json:"chunk,omitempty"` // body reader hands out at most this many bytes per Read (0 = all)
}

var httpCTypes = []string{"application/octet-stream", "text/xml", "application/json"}

func genHTTPReq(g *simrt.Tape) HTTPReqSc {
	h := HTTPReqSc{Req: genSrvReq(g), Enc: g.Draw(3)}
	switch g.Draw(14) {
	case 0:
		h.Mangle = "corrupt"
		h.Pos, h.Val = g.Draw(2000), g.Draw(256)
	case 1:
		h.Mangle = "truncate"
		h.Pos = g.Draw(2000)
	case 2:
		h.Mangle = "short-body"
		h.Pos = 1 + g.Draw(50)
	case 3:
		h.Mangle = "long-length"
	case 4:
		h.Mangle = "garbage"
		h.Pos = 1 + g.Draw(60)
	case 5:
		h.Mangle = "empty"
	case 6:
		h.Mangle = "no-length"
	case 7:
		h.Method = []string{"GET", "PUT", "DELETE"}[g.Draw(3)]
	case 8:
		h.CType = []string{"text/plain", "", "application/xml"}[g.Draw(3)]
		if h.CType == "" {
			h.CType = "none"
		}
	}
	h.ChunkLen = []int{0, 0, 1, 7, 64}[g.Draw(5)]
	return h
}

type chunkReader struct {
	s   *simrt.Sim
	b   []byte
	max int
}

func (r *chunkReader) Read(p []byte) (int, error) {
	if len(r.b) == 0 {
		return 0, io.EOF
	}
	n := len(p)
	if r.max > 0 && n > r.max {
		n = r.max
		r.s.Faults["chunk"]++
	}
	if n > len(r.b) {
		n = len(r.b)
	}
	copy(p, r.b[:n])
	r.b = r.b[n:]
	simrt.Yield("http-body-read")
	return n, nil
}
func (r *chunkReader) Close() error { return nil }

func marshalEnc(enc int, v any) []byte {
	switch enc {
	case 1:
		return ttlv.MarshalXML(v)
	case 2:
		return ttlv.MarshalJSON(v)
	default:
		return ttlv.MarshalTTLV(v)
	}
}

func unmarshalEnc(enc int, b []byte, v any) (err error) {
	defer func() {
		if r := recover(); r != nil {
			err = fmt.Errorf("decoder panic: %v", r)
		}
	}()
	switch enc {
	case 1:
		return ttlv.UnmarshalXML(bytes.Clone(b), v)
	case 2:
		return ttlv.UnmarshalJSON(bytes.Clone(b), v)
	default:
		return ttlv.UnmarshalTTLV(bytes.Clone(b), v)
	}
}

// runHTTP performs one HTTP exchange against the real handler and judges it.
func (w *serverWorld) runHTTP(x *X, hdl http.Handler, idx int, h HTTPReqSc) {
	s := w.s
	prefix := fmt.Sprintf("h%d.r1", idx)
	body := marshalEnc(h.Enc, buildRequest(h.Req, prefix))
	declared := len(body)
	wellFormed := true
	switch h.Mangle {
	case "corrupt":
		body[h.Pos%len(body)] = byte(h.Val)
		s.Fault("corrupt")
		wellFormed = false
	case "truncate":
		body = body[:h.Pos%len(body)]
		declared = len(body)
		s.Fault("corrupt")
		wellFormed = false
	case "short-body":
		cut := min(h.Pos, len(body)-1)
		body = body[:len(body)-cut]
		s.Fault("short-body")
		wellFormed = false
	case "long-length":
		declared = 2 << 20
		s.Fault("oversize")
		wellFormed = false
	case "garbage":
		body = make([]byte, h.Pos)
		for i := range body {
			body[i] = byte(i*37 + h.Pos)
		}
		declared = len(body)
		s.Fault("garbage")
		wellFormed = false
	case "empty":
		body = nil
		declared = 0
		wellFormed = false
	}
	method := "POST"
	if h.Method != "" {
		method = h.Method
	}
	req := httptest.NewRequest(method, "/kmip", nil)
	// (a body is delivered in at most about 2000 reads: a megabyte one byte at a time would spend the run's whole
	// scheduling budget on reading and be reported as not coming to rest)
	chunk := h.ChunkLen
	if chunk > 0 && len(body)/chunk > 2000 {
		chunk = len(body)/2000 + 1
	}
	req.Body = &chunkReader{s: s, b: body, max: chunk}
	ct := httpCTypes[h.Enc]
	if h.CType == "none" {
		ct = ""
	} else if h.CType != "" {
		ct = h.CType
	}
	if ct != "" {
		req.Header.Set("Content-Type", ct)
	}
	if h.Mangle != "no-length" {
		req.Header.Set("Content-Length", strconv.Itoa(declared))
	}
	req.RemoteAddr = fmt.Sprintf("h%d.s.peer", idx)
	rec := httptest.NewRecorder()
	s.Eventf("http %d %s %s mangle=%s", idx, method, ct, h.Mangle)
	hdl.ServeHTTP(rec, req.WithContext(context.Background()))
	s.Eventf("http %d -> %d (%d bytes)", idx, rec.Code, rec.Body.Len())

	// ---- oracle
	plain := method == "POST" && (h.CType == "") && h.Mangle != "no-length"
	switch {
	case len(body) > 1<<20 || declared > 1<<20:
		// beyond the handler's documented body limit: it may refuse (what matters is that it survives; the
		// connection-level properties are judged on the TCP surface)
		s.Probe("http-body-over-limit")
		if rec.Code == 200 {
			var resp kmip.ResponseMessage
			if err := unmarshalEnc(h.Enc, rec.Body.Bytes(), &resp); err != nil {
				x.Reportf("C08.http-response-undecodable", ct, "response (200) to an oversized %s request does not decode: %v", ct, err)
			}
		}
	case method != "POST":
		if rec.Code < 400 {
			x.Reportf("C08.http-bad-status", "method", "%s request answered with status %d", method, rec.Code)
		}
	case h.CType != "":
		if rec.Code < 400 {
			x.Reportf("C08.http-bad-status", "content-type", "content type %q answered with status %d", ct, rec.Code)
		}
	case h.Mangle == "no-length" || h.Mangle == "empty" || h.Mangle == "long-length" || h.Mangle == "short-body" || declared == 0:
		if rec.Code < 400 {
			x.Reportf("C08.http-bad-status", h.Mangle, "request with %s answered with status %d", h.Mangle, rec.Code)
		}
	case plain && wellFormed:
		if rec.Code != 200 {
			x.Reportf("C08.http-request-unanswered", "status", "well-formed %s request answered with status %d", ct, rec.Code)
			return
		}
		var resp kmip.ResponseMessage
		if err := unmarshalEnc(h.Enc, rec.Body.Bytes(), &resp); err != nil {
			x.Reportf("C08.http-response-undecodable", ct, "response to a well-formed %s request does not decode: %v", ct, err)
			return
		}
		checkBatch(x, "C08", h.Req, prefix, allVersions, &resp, w.trace, req.RemoteAddr)
	default:
		// corrupt / truncate / garbage: whether it still decodes is decided by the library's own decoder
		var probe kmip.RequestMessage
		err := unmarshalEnc(h.Enc, body, &probe)
		if err == nil {
			if rec.Code != 200 {
				x.Reportf("C08.http-request-unanswered", "status", "decodable %s request answered with status %d", ct, rec.Code)
			}
			return
		}
		if rec.Code != 200 {
			x.Reportf("C08.http-undecodable-not-invalid-message", "status", "undecodable %s body (%v) answered with status %d", ct, err, rec.Code)
			return
		}
		var resp kmip.ResponseMessage
		if derr := unmarshalEnc(h.Enc, rec.Body.Bytes(), &resp); derr != nil {
			x.Reportf("C08.http-response-undecodable", ct, "error response to an undecodable %s body does not decode: %v", ct, derr)
			return
		}
		if len(resp.BatchItem) != 1 || resp.BatchItem[0].ResultStatus != kmip.ResultStatusOperationFailed {
			x.Reportf("C08.http-undecodable-not-invalid-message", "reply", "undecodable %s body (%v) answered with %s", ct, err, respDesc(&resp))
		}
	}
}

var _ = kmipserver.NewHTTPHandler
