package harness

import (
	"bytes"
	"context"
	"errors"
	"fmt"
	"io"
	"net"
	"os"
	"sort"
	"strings"
	"sync/atomic"
	"time"

	"kmipverif/simnet"
	"kmipverif/simrt"

	"github.com/ovh/kmip-go"
	"github.com/ovh/kmip-go/kmipclient"
	"github.com/ovh/kmip-go/payloads"
	"github.com/ovh/kmip-go/ttlv"
)

// ---- shared scenario pieces of the client engine (C10, C11, C12, C13, C19-client)

// ReqBehav is what the scripted server does with one request (cycled by global request index).
type ReqBehav struct {
	DelayMs     int  `json:"delay_ms,omitempty"` // simulated time before replying
	Yields      int  `json:"yields,omitempty"`   // scheduling points before replying
	CloseBefore bool `json:"close_before,omitempty"`
	CloseAfter  bool `json:"close_after,omitempty"` // close right after replying
	ResetAfter  bool `json:"reset_after,omitempty"`
	NoReply     bool `json:"no_reply,omitempty"` // swallow the request (caller must time out / cancel)
	Partial     int  `json:"partial,omitempty"`  // write only this many eighths of the reply, then close (1..7)
	// Notify: before replying the server sends a message of its own, a server-originated request (KMIP's Notify/Put
	// direction), which a client ignores
	Notify bool `json:"notify,omitempty"`
	// NotifyBad: the unsolicited message is well framed but not decodable (a top-level tag the library does not know)
	NotifyBad bool `json:"notify_bad,omitempty"`
}

// ConnSc configures the client's i-th dial.
type ConnSc struct {
	DialFail bool `json:"dial_fail,omitempty"`
	// DialErr: what a failing dial returns: "" connection refused | "eof" an error wrapping io.EOF (a TLS dial whose
	// server goes away during the handshake) | "closed" wrapping io.ErrClosedPipe | "timeout" a net timeout error
	DialErr string `json:"dial_err,omitempty"`
	// DialYields / DialMs: the dial takes a while (scheduling points / simulated time) before it returns
	DialYields int              `json:"dial_yields,omitempty"`
	DialMs     int              `json:"dial_ms,omitempty"`
	Plan       []simnet.FaultAt `json:"plan,omitempty"`
	Rates      map[string]int   `json:"rates,omitempty"`
}

type CallSc struct {
	Kind         string `json:"kind"`          // request | batch | close | yield | clone
	N            int    `json:"n,omitempty"`   // batch size
	Ctx          string `json:"ctx,omitempty"` // "" | cancel | timeout | precancelled | observe
	CancelYields int    `json:"cancel_yields,omitempty"`
	TimeoutMs    int    `json:"timeout_ms,omitempty"`
	ObserveK     int    `json:"observe_k,omitempty"` // "observe": context becomes cancelled at its k-th observation
	// Via: the public entry point used for a request/batch: "" Client.Request / Client.Batch | "roundtrip"
	// Client.Roundtrip with a hand-built message | "exec" the fluent builder (single requests)
	Via string `json:"via,omitempty"`
	// Bytes: the call is an Encrypt instead of an Activate: its response carries byte strings (the data, and the item
	// ids of a batch), which must be the ones the server sent for this call, when the call returns and for as long
	// as the caller keeps them (a response that changes under its holder is no longer the server's response)
	Bytes bool `json:"bytes,omitempty"`
}

// genVia draws the entry point of a call.
func genVia(g *simrt.Tape) string {
	return []string{"", "", "", "roundtrip", "roundtrip", "exec"}[g.Draw(6)]
}

type CallerSc struct {
	Calls []CallSc `json:"calls"`
}

type ClientSc struct {
	Prop    string     `json:"prop"`
	Enforce bool       `json:"enforce"` // EnforceVersion(1.4): no negotiation exchange
	Callers []CallerSc `json:"callers"`
	Behav   []ReqBehav `json:"behav,omitempty"`
	Conns   []ConnSc   `json:"conns,omitempty"`
	// HangUpServer: a server that answers every request and hangs up right after each reply, for the whole run
	// (also in the fault-free suffix: it is reachable, it just does not keep connections), seen through a transport
	// whose Write calls return late. No two consecutive calls of the suffix may both fail
	HangUpServer bool `json:"hang_up_server,omitempty"`
	Chunk        int  `json:"chunk,omitempty"`
	DataEOF      bool `json:"data_eof,omitempty"`
	Suffix       int  `json:"suffix,omitempty"`      // number of sequential fault-free calls at the end (recovery oracle)
	FinalClose   bool `json:"final_close,omitempty"` // harness closes the client at the end (leak oracle)
	Capacity     int  `json:"capacity,omitempty"`
	// DiscoverMode: how the scripted server answers the discovery exchange: 0 conformant, 1 empty list
	// (no common version: Dial must fail), 2 failed item (general failure)
	DiscoverMode int `json:"discover_mode,omitempty"`
	// Cluster: the client is created through DialClusterContext (the other connect entry point)
	Cluster bool `json:"cluster,omitempty"`
	// DefaultDialer: no WithDialerUnsafe: the library's own dialer closure runs and reaches the simulated network
	// through the rewriter's tls.Dialer seam
	DefaultDialer bool `json:"default_dialer,omitempty"`
	// DialCtxCancelled: the context given to Dial is cancelled as soon as Dial has returned (the usual
	// "ctx, cancel := WithTimeout(...); defer cancel()" around a Dial): later re-dials must not depend on it
	DialCtxCancelled bool `json:"dial_ctx_cancelled,omitempty"`
	// NestMw: the client has a middleware that, for the first few calls, issues a request of its own on the same
	// client from another goroutine, with the context the chain handed it, while the original call proceeds
	NestMw bool `json:"nest_mw,omitempty"`
	// TimeoutMwMs: the client is configured with the library's TimeoutMiddleware (this many milliseconds)
	TimeoutMwMs int `json:"timeout_mw_ms,omitempty"`
}

// callRec is the recorded history of one call.
type callRec struct {
	caller, idx       int
	kind              string
	tokens            []string
	got               []string
	err               error
	returned          bool
	abandoned         bool // returned with an error (its response may still arrive)
	startedAfterClose bool
	startSeq, endSeq  int
	suffix            bool
	ctxKind           string // the call carries its own cancellation / deadline
	held              []heldBytes
}

// heldBytes is a byte string of a returned response, kept by reference, with a copy of what it must (still) hold.
type heldBytes struct {
	what string
	ref  []byte
	want []byte
}

// respData is the data the scripted server returns for an Encrypt of the given identifier.
func respData(id string) []byte {
	return []byte("cipher-of-" + id + "-" + strings.Repeat(id[len(id)-1:], 24))
}

// gotOf names what a response payload says (the token it carries) and keeps its byte strings for the final look.
func (rec *callRec) gotOf(pl kmip.OperationPayload, status kmip.ResultStatus) string {
	switch p := pl.(type) {
	case *payloads.ActivateResponsePayload:
		if status == kmip.ResultStatusSuccess {
			return p.UniqueIdentifier
		}
	case *payloads.EncryptResponsePayload:
		if status == kmip.ResultStatusSuccess {
			if want := respData(p.UniqueIdentifier); !bytes.Equal(p.Data, want) {
				return fmt.Sprintf("%s<with data %q>", p.UniqueIdentifier, p.Data)
			}
			rec.held = append(rec.held, heldBytes{"data of " + p.UniqueIdentifier, p.Data, respData(p.UniqueIdentifier)})
			return p.UniqueIdentifier
		}
	}
	return fmt.Sprintf("<%T status=%v>", pl, status)
}

type clientWorld struct {
	x             *X
	s             *simrt.Sim
	sc            *ClientSc
	client        *kmipclient.Client
	dialErr       error
	dials         int
	conns         []*simnet.Conn // client endpoints
	peers         []*simnet.Conn // server endpoints
	reqSeen       int
	quiet         bool           // suffix phase: no faults
	sent          map[string]int // token -> number of Write calls carrying it
	calls         []*callRec
	seq           int
	closeReturned bool
	closeCalled   bool
	baseCtx       context.Context // consumed by the next doCall
	nested        int
	closeSeq      int // value of seq when Close was called (0: never)
	closePanicked bool
	cancels       []context.CancelFunc
	versionsSeen  []kmip.ProtocolVersion                                                            // header version of every request the server decoded
	respond       func(w *clientWorld, req *kmip.RequestMessage, connIdx int) *kmip.ResponseMessage // override (C12/C13)
	rawRespond    func(w *clientWorld, req *kmip.RequestMessage, connIdx int) []byte
	tokenOwner    map[string]*callRec
	loose         bool
}

func newClientWorld(x *X, sc *ClientSc) *clientWorld {
	return &clientWorld{x: x, s: x.S, sc: sc, sent: map[string]int{}, tokenOwner: map[string]*callRec{}}
}

func (w *clientWorld) behav() ReqBehav {
	if w.sc.HangUpServer {
		return ReqBehav{CloseAfter: true}
	}
	if w.quiet || len(w.sc.Behav) == 0 {
		return ReqBehav{}
	}
	b := w.sc.Behav[w.reqSeen%len(w.sc.Behav)]
	return b
}

// dialer is what kmipclient.WithDialerUnsafe gets.
func (w *clientWorld) dialer(ctx context.Context) (net.Conn, error) {
	i := w.dials
	w.dials++
	w.s.Eventf("dial %d", i)
	var cs ConnSc
	if i < len(w.sc.Conns) {
		cs = w.sc.Conns[i]
	}
	for k := 0; k < cs.DialYields && !w.quiet; k++ {
		w.s.YieldNow("dial-in-progress")
	}
	if cs.DialMs > 0 && !w.quiet {
		w.s.Faults["slow-dial"]++
		w.s.Sleep(time.Duration(cs.DialMs) * time.Millisecond)
	}
	if err := ctx.Err(); err != nil {
		// a real dialer gives up when its context is done
		w.s.Eventf("dial %d refused: context done", i)
		return nil, fmt.Errorf("dial sim: %w", err)
	}
	if cs.DialFail && !w.quiet {
		w.s.Fault("dial-fail")
		switch cs.DialErr {
		case "eof":
			return nil, fmt.Errorf("dial sim: handshake: %w", io.EOF)
		case "closed":
			return nil, fmt.Errorf("dial sim: handshake: %w", io.ErrClosedPipe)
		case "timeout":
			return nil, &net.OpError{Op: "dial", Net: "sim", Err: os.ErrDeadlineExceeded}
		}
		return nil, simnet.ErrRefused
	}
	cep := simnet.EP{Chunk: w.sc.Chunk, DataEOF: w.sc.DataEOF, Plan: cs.Plan, Rates: cs.Rates, Capacity: w.sc.Capacity, WriteLate: w.sc.HangUpServer, WriteLateAlways: w.sc.HangUpServer}
	sep := simnet.EP{Chunk: w.sc.Chunk, Capacity: w.sc.Capacity}
	a, b := simnet.Pipe(w.s, fmt.Sprintf("k%d", i), cep, sep)
	a.Quiet = func() bool { return w.quiet }
	a.OnWrite = func(p []byte) { w.countTransmission(p) }
	w.conns = append(w.conns, a)
	w.peers = append(w.peers, b)
	w.s.Spawn("peer", func() { w.peerLoop(b, i) })
	return &simrt.TCPConn{Conn: a}, nil
}

func (w *clientWorld) countTransmission(p []byte) {
	// a Write carries (a prefix of) one encoded request; tokens are plain text strings inside it
	for tok := range w.tokenOwner {
		if bytes.Contains(p, []byte(tok)) {
			w.sent[tok]++
		}
	}
}

// peerLoop is the scripted server side of one connection.
func (w *clientWorld) peerLoop(c *simnet.Conn, connIdx int) {
	st := ttlv.NewStream(c, 0)
	for {
		var req kmip.RequestMessage
		if w.loose {
			// only the skeleton of the request matters (version, operations, item ids): decode
			// generically so that the peer never depends on the request payload being decodable
			var v ttlv.Value
			if err := st.Recv(&v); err != nil {
				_ = c.Close()
				return
			}
			req = skeletonRequest(v)
		} else if err := st.Recv(&req); err != nil {
			_ = c.Close()
			return
		}
		b := w.behav()
		w.reqSeen++
		w.versionsSeen = append(w.versionsSeen, req.Header.ProtocolVersion)
		if b.CloseBefore {
			w.s.Fault("server-close-before-reply")
			_ = c.Close()
			return
		}
		for i := 0; i < b.Yields; i++ {
			w.s.YieldNow("peer-dally")
		}
		if b.DelayMs > 0 {
			w.s.Faults["server-delay"]++
			w.s.Sleep(time.Duration(b.DelayMs) * time.Millisecond)
		}
		if b.NoReply {
			w.s.Fault("server-no-reply")
			continue
		}
		var err error
		if b.Notify {
			w.s.Fault("server-originated-request")
			ts := time.Unix(1700000000, 0).UTC()
			note := &kmip.RequestMessage{Header: kmip.RequestHeader{ProtocolVersion: req.Header.ProtocolVersion, TimeStamp: &ts, BatchCount: 1},
				BatchItem: []kmip.RequestBatchItem{{Operation: kmip.OperationActivate, RequestPayload: &payloads.ActivateRequestPayload{UniqueIdentifier: "server-originated"}}}}
			frame := ttlv.MarshalTTLV(note)
			if b.NotifyBad {
				w.s.Fault("server-undecodable-message")
				frame = ttlv.MarshalTTLV(ttlv.Value{Tag: 0x420001, Value: ttlv.Struct{{Tag: 0x420069, Value: int32(1)}}})
			}
			if _, err := c.Write(frame); err != nil {
				_ = c.Close()
				return
			}
		}
		if b.Partial > 0 && w.rawRespond == nil {
			var resp *kmip.ResponseMessage
			if w.respond != nil {
				resp = w.respond(w, &req, connIdx)
			} else {
				resp = echoResponse(&req)
			}
			full := ttlv.MarshalTTLV(resp)
			w.s.Fault("server-partial-reply")
			_, _ = c.Write(full[:max(1, len(full)*b.Partial/8)])
			if b.ResetAfter {
				c.Reset()
			} else {
				_ = c.Close()
			}
			return
		}
		if w.rawRespond != nil {
			_, err = c.Write(w.rawRespond(w, &req, connIdx))
		} else {
			var resp *kmip.ResponseMessage
			if w.respond != nil {
				resp = w.respond(w, &req, connIdx)
			} else {
				resp = echoResponse(&req)
				if w.sc.DiscoverMode != 0 && len(req.BatchItem) == 1 && req.BatchItem[0].Operation == kmip.OperationDiscoverVersions {
					if w.sc.DiscoverMode == 1 {
						resp.BatchItem[0].ResponsePayload = &payloads.DiscoverVersionsResponsePayload{}
					} else {
						resp.BatchItem[0] = kmip.ResponseBatchItem{Operation: kmip.OperationDiscoverVersions, ResultStatus: kmip.ResultStatusOperationFailed, ResultReason: kmip.ResultReasonGeneralFailure, ResultMessage: "no"}
					}
				}
			}
			err = st.Send(resp)
		}
		if err != nil {
			_ = c.Close()
			return
		}
		if b.CloseAfter {
			w.s.Fault("server-close-after-reply")
			_ = c.Close()
			return
		}
		if b.ResetAfter {
			w.s.Fault("server-reset-after-reply")
			c.Reset()
			return
		}
	}
}

// echoResponse is the well-behaved server: every Activate item is answered with its own token.
func echoResponse(req *kmip.RequestMessage) *kmip.ResponseMessage {
	resp := &kmip.ResponseMessage{Header: kmip.ResponseHeader{ProtocolVersion: req.Header.ProtocolVersion, TimeStamp: time.Now(), BatchCount: int32(len(req.BatchItem))}}
	for _, bi := range req.BatchItem {
		ri := kmip.ResponseBatchItem{Operation: bi.Operation, UniqueBatchItemID: bi.UniqueBatchItemID, ResultStatus: kmip.ResultStatusSuccess}
		switch pl := bi.RequestPayload.(type) {
		case *payloads.ActivateRequestPayload:
			ri.ResponsePayload = &payloads.ActivateResponsePayload{UniqueIdentifier: pl.UniqueIdentifier}
		case *payloads.EncryptRequestPayload:
			ri.ResponsePayload = &payloads.EncryptResponsePayload{UniqueIdentifier: pl.UniqueIdentifier, Data: respData(pl.UniqueIdentifier)}
		case *payloads.DiscoverVersionsRequestPayload:
			ri.ResponsePayload = &payloads.DiscoverVersionsResponsePayload{ProtocolVersion: pl.ProtocolVersion}
		default:
			ri.ResultStatus = kmip.ResultStatusOperationFailed
			ri.ResultReason = kmip.ResultReasonOperationNotSupported
		}
		resp.BatchItem = append(resp.BatchItem, ri)
	}
	return resp
}

// observeCtx becomes cancelled at the k-th time the code under test observes it.
type observeCtx struct {
	k, n     atomic.Int64
	done     chan struct{}
	fired    atomic.Bool
	deadline bool // reports context.DeadlineExceeded (an expired deadline) instead of context.Canceled
}

func newObserveCtx(k int) *observeCtx {
	c := &observeCtx{done: make(chan struct{})}
	c.k.Store(int64(k))
	return c
}
func (c *observeCtx) observe() {
	if n := c.n.Add(1); n == c.k.Load() && !c.fired.Swap(true) {
		close(c.done)
	}
}
func (c *observeCtx) Deadline() (time.Time, bool) {
	if c.deadline {
		return time.Unix(946684800, 0).Add(time.Hour), true
	}
	return time.Time{}, false
}

// expire fires the context from outside (a canceller task), whatever the observation count.
func (c *observeCtx) expire() {
	if !c.fired.Swap(true) {
		close(c.done)
	}
}
func (c *observeCtx) Done() <-chan struct{} { c.observe(); return c.done }
func (c *observeCtx) Err() error {
	c.observe()
	if c.fired.Load() {
		if c.deadline {
			return context.DeadlineExceeded
		}
		return context.Canceled
	}
	return nil
}
func (c *observeCtx) Value(any) any { return nil }

// doCall performs one call of a caller script and records it.
func (w *clientWorld) doCall(caller, idx int, cs CallSc, suffix bool) *callRec {
	rec := &callRec{caller: caller, idx: idx, kind: cs.Kind, suffix: suffix, ctxKind: cs.Ctx}
	n := 1
	if cs.Kind == "batch" {
		n = max(cs.N, 1)
	}
	for i := 0; i < n; i++ {
		tag := "c"
		if suffix {
			tag = "s"
		}
		tok := fmt.Sprintf("tok-%s%d-%d-%d", tag, caller, idx, i)
		rec.tokens = append(rec.tokens, tok)
		w.tokenOwner[tok] = rec
	}
	w.calls = append(w.calls, rec)
	w.seq++
	rec.startSeq = w.seq
	rec.startedAfterClose = w.closeReturned
	ctx := context.Background()
	if w.baseCtx != nil {
		ctx, w.baseCtx = w.baseCtx, nil // (a nested call made on behalf of a middleware: it inherits that context)
	}
	var observed *observeCtx
	switch cs.Ctx {
	case "cancel":
		c, cancel := context.WithCancel(ctx)
		ctx = c
		w.cancels = append(w.cancels, cancel)
		ny := cs.CancelYields
		w.s.Spawn("canceller", func() {
			for i := 0; i < ny; i++ {
				w.s.YieldNow("canceller-dally")
			}
			w.s.Fault("cancel")
			cancel()
		})
	case "timeout":
		d := time.Duration(max(cs.TimeoutMs, 1)) * time.Millisecond
		c, cancel := context.WithTimeout(ctx, d)
		ctx = c
		w.cancels = append(w.cancels, cancel)
		w.s.Deadline(time.Now().Add(d))
		w.s.Faults["timeout-ctx"]++
	case "precancelled":
		c, cancel := context.WithCancel(ctx)
		cancel()
		ctx = c
		w.s.Fault("cancel")
	case "observe":
		observed = newObserveCtx(cs.ObserveK)
		ctx = observed
	case "observe-deadline":
		observed = newObserveCtx(cs.ObserveK)
		observed.deadline = true
		ctx = observed
	case "expire":
		// a deadline that expires at an arbitrary yield (real timers only fire when every task is blocked)
		oc := newObserveCtx(1 << 30)
		oc.deadline = true
		ctx = oc
		ny := cs.CancelYields
		w.s.Spawn("expirer", func() {
			for i := 0; i < ny; i++ {
				w.s.YieldNow("expirer-dally")
			}
			w.s.Fault("deadline-expiry")
			oc.expire()
		})
	}
	var pls []kmip.OperationPayload
	for _, tok := range rec.tokens {
		if cs.Bytes {
			pls = append(pls, &payloads.EncryptRequestPayload{UniqueIdentifier: tok, Data: []byte("plain-" + tok)})
			continue
		}
		pls = append(pls, &payloads.ActivateRequestPayload{UniqueIdentifier: tok})
	}
	w.s.Eventf("call c%d/%d start", caller, idx)
	if cs.Via == "roundtrip" {
		msg := kmip.NewRequestMessage(w.client.Version(), pls...)
		resp, err := w.client.Roundtrip(ctx, &msg)
		rec.err = err
		if err == nil && resp == nil {
			rec.got = append(rec.got, "<nil response>")
		} else if err == nil {
			for k, bi := range resp.BatchItem {
				rec.got = append(rec.got, rec.gotOf(bi.ResponsePayload, bi.ResultStatus))
				if k < len(msg.BatchItem) && len(bi.UniqueBatchItemID) > 0 && bytes.Equal(bi.UniqueBatchItemID, msg.BatchItem[k].UniqueBatchItemID) {
					rec.held = append(rec.held, heldBytes{fmt.Sprintf("id of item %d", k), bi.UniqueBatchItemID, bytes.Clone(bi.UniqueBatchItemID)})
				}
			}
		}
	} else if cs.Via == "exec" && cs.Kind != "batch" && cs.Bytes {
		res, err := w.client.Encrypt(rec.tokens[0]).Data([]byte("plain-" + rec.tokens[0])).ExecContext(ctx)
		rec.err = err
		if err == nil && res != nil {
			rec.got = append(rec.got, rec.gotOf(res, kmip.ResultStatusSuccess))
		} else if err == nil {
			rec.got = append(rec.got, "<nil payload>")
		}
	} else if cs.Via == "exec" && cs.Kind != "batch" {
		res, err := w.client.Activate(rec.tokens[0]).ExecContext(ctx)
		rec.err = err
		if err == nil && res != nil {
			rec.got = append(rec.got, res.UniqueIdentifier)
		} else if err == nil {
			rec.got = append(rec.got, "<nil payload>")
		}
	} else if cs.Kind == "batch" {
		res, err := w.client.Batch(ctx, pls...)
		rec.err = err
		if err == nil {
			for k, bi := range res {
				rec.got = append(rec.got, rec.gotOf(bi.ResponsePayload, bi.ResultStatus))
				if len(bi.UniqueBatchItemID) > 0 {
					rec.held = append(rec.held, heldBytes{fmt.Sprintf("id of item %d", k), bi.UniqueBatchItemID, bytes.Clone(bi.UniqueBatchItemID)})
				}
			}
		}
	} else {
		res, err := w.client.Request(ctx, pls[0])
		rec.err = err
		if err == nil {
			rec.got = append(rec.got, rec.gotOf(res, kmip.ResultStatusSuccess))
		}
	}
	if observed != nil && observed.fired.Load() {
		w.s.Fault("cancel-at-observation")
	}
	rec.returned = true
	rec.abandoned = rec.err != nil
	w.seq++
	rec.endSeq = w.seq
	w.s.Eventf("call c%d/%d end err=%v got=%v", caller, idx, rec.err != nil, rec.got)
	return rec
}

// doClone clones the client, issues one request on the clone and closes it.
func (w *clientWorld) doClone(caller, idx int) {
	w.s.Eventf("clone by c%d", caller)
	c2, err := w.client.Clone()
	if err != nil || c2 == nil {
		return
	}
	// the clone is a client of its own: whatever state its parent is in (closed, say), it makes its calls, survives the
	// faults of its own connections, and is closed
	for k := 0; k < 3; k++ {
		tok := fmt.Sprintf("tok-k%d-%d-%d", caller, idx, k)
		rec := &callRec{caller: caller, idx: idx, kind: "clone-request", tokens: []string{tok}}
		w.tokenOwner[tok] = rec
		w.calls = append(w.calls, rec)
		w.seq++
		rec.startSeq = w.seq
		res, err := c2.Request(context.Background(), &payloads.ActivateRequestPayload{UniqueIdentifier: tok})
		rec.err = err
		if err == nil {
			if p, ok := res.(*payloads.ActivateResponsePayload); ok {
				rec.got = append(rec.got, p.UniqueIdentifier)
			} else {
				rec.got = append(rec.got, fmt.Sprintf("<%T>", res))
			}
		}
		rec.returned = true
		w.seq++
		rec.endSeq = w.seq
	}
	_ = c2.Close()
}

func (w *clientWorld) doClose(caller int) {
	w.closeCalled = true
	w.seq++
	if w.closeSeq == 0 {
		w.closeSeq = w.seq
	}
	w.s.Eventf("close by c%d", caller)
	func() {
		defer func() {
			if r := recover(); r != nil {
				w.closePanicked = true
				panic(r)
			}
		}()
		_ = w.client.Close()
	}()
	w.closeReturned = true
	w.s.Eventf("close returned")
}

// runCallers spawns the caller tasks (after the client has been dialled) and the optional suffix.
func (w *clientWorld) start(opts ...kmipclient.Option) {
	sc := w.sc
	ready := false
	callersDone := 0
	w.s.Spawn("dial", func() {
		var o []kmipclient.Option
		if sc.DefaultDialer {
			simrt.DialHook = func(ctx context.Context, network, addr string) (net.Conn, error) { return w.dialer(ctx) }
		} else {
			o = append(o, kmipclient.WithDialerUnsafe(w.dialer))
		}
		if sc.Enforce {
			o = append(o, kmipclient.EnforceVersion(kmip.V1_4))
		}
		if sc.TimeoutMwMs > 0 {
			o = append(o, kmipclient.WithMiddlewares(kmipclient.TimeoutMiddleware(time.Duration(sc.TimeoutMwMs)*time.Millisecond)))
		}
		if sc.NestMw {
			o = append(o, kmipclient.WithMiddlewares(func(next kmipclient.Next, ctx context.Context, msg *kmip.RequestMessage) (*kmip.ResponseMessage, error) {
				own := len(msg.BatchItem) > 0
				if own {
					if p, ok := msg.BatchItem[0].RequestPayload.(*payloads.ActivateRequestPayload); !ok || strings.HasPrefix(p.UniqueIdentifier, "tok-c8") {
						own = false // (not one of the scripted calls, or itself a nested call)
					}
				}
				if own && w.nested < 3 && w.client != nil {
					k := w.nested
					w.nested++
					w.s.Spawn("nested-call", func() {
						w.baseCtx = ctx
						w.doCall(80+k, 0, CallSc{Kind: "request"}, false)
					})
				}
				return next(ctx, msg)
			}))
		}
		o = append(o, opts...)
		dialCtx, cancelDial := context.WithCancel(context.Background())
		var c *kmipclient.Client
		var err error
		if sc.Cluster {
			c, err = kmipclient.DialClusterContext(dialCtx, []string{"sim", "sim-b"}, append(o, kmipclient.WithRetryTimeout(time.Second))...)
		} else {
			c, err = kmipclient.DialContext(dialCtx, "sim", o...)
		}
		if sc.DialCtxCancelled {
			cancelDial()
		}
		w.cancels = append(w.cancels, cancelDial)
		w.client, w.dialErr = c, err
		w.s.Eventf("dialled err=%v", err != nil)
		ready = true
	})
	for ci, cs := range sc.Callers {
		ci, cs := ci, cs
		w.s.Spawn(fmt.Sprintf("caller%d", ci), func() {
			defer func() { callersDone++ }()
			w.s.WaitUntil("client-ready", func() bool { return ready })
			if w.client == nil {
				return
			}
			for i, call := range cs.Calls {
				switch call.Kind {
				case "close":
					w.doClose(ci)
				case "yield":
					for k := 0; k < max(call.N, 1); k++ {
						w.s.YieldNow("caller-dally")
					}
				case "sleep":
					w.s.Sleep(time.Duration(max(call.TimeoutMs, 1)) * time.Millisecond)
				case "clone":
					w.doClone(ci, i)
				default:
					w.doCall(ci, i, call, false)
				}
			}
		})
	}
	w.s.Spawn("suffix", func() {
		w.s.WaitUntil("callers-done", func() bool { return callersDone == len(sc.Callers) })
		if w.client == nil {
			return
		}
		if sc.Suffix > 0 {
			// let everything in flight settle, then stop injecting faults
			w.s.Sleep(30 * time.Second)
			w.quiet = true
			w.s.Eventf("suffix begins")
			for i := 0; i < sc.Suffix; i++ {
				w.doCall(99, i, CallSc{Kind: "request"}, true)
			}
		}
		if sc.FinalClose && !w.closeCalled {
			w.doClose(99)
		}
	})
}

// finish cancels what the harness owns and closes every simulated connection so that
// goroutines blocked on them can end; what is still alive afterwards is a leak.
func (w *clientWorld) finish() {
	for _, c := range w.cancels {
		c()
	}
}

func (w *clientWorld) tokenOracle(prop string) {
	for _, rec := range w.calls {
		if !rec.returned || rec.err != nil {
			continue
		}
		for _, h := range rec.held {
			if !bytes.Equal(h.ref, h.want) {
				w.x.Reportf(prop+".foreign-response", "response-changed-after-return", "call c%d/%d: the %s in the response it was given held %q when the call returned and holds %q at the end of the run", rec.caller, rec.idx, h.what, h.want, h.ref)
				break
			}
		}
		if len(rec.got) != len(rec.tokens) {
			w.x.Reportf(prop+".wrong-item-count", "count", "call c%d/%d sent %d items, got %d back without error", rec.caller, rec.idx, len(rec.tokens), len(rec.got))
			continue
		}
		for i := range rec.tokens {
			if rec.got[i] == rec.tokens[i] {
				continue
			}
			sig := "unknown-token"
			detail := ""
			if owner := w.tokenOwner[rec.got[i]]; owner != nil {
				switch {
				case owner == rec:
					sig = "own-items-permuted"
				case owner.returned && owner.endSeq < rec.startSeq && owner.err != nil:
					sig = "stale-response-of-abandoned-call"
				case owner.returned && owner.endSeq < rec.startSeq:
					sig = "response-of-earlier-completed-call"
				default:
					sig = "response-of-concurrent-call"
				}
				detail = fmt.Sprintf(" (that token belongs to call c%d/%d, which returned err=%v)", owner.caller, owner.idx, owner.err)
			}
			w.x.Reportf(prop+".foreign-response", sig, "call c%d/%d sent %q and returned %q with a nil error%s", rec.caller, rec.idx, rec.tokens[i], rec.got[i], detail)
			break
		}
	}
}

func (w *clientWorld) allReturnedOracle(prop string) bool {
	ok := true
	for _, rec := range w.calls {
		if !rec.returned {
			ok = false
			w.x.Reportf(prop+".call-hangs", "call", "call c%d/%d (%s) has not returned at quiescence", rec.caller, rec.idx, rec.kind)
		}
	}
	return ok
}

func aliveSummary(ts []*simrt.Task) (string, string) {
	var roles, full []string
	for _, t := range ts {
		r := t.Role
		if i := strings.IndexByte(r, '#'); i >= 0 {
			r = r[:i]
		}
		roles = append(roles, r+"@"+siteFunc(t.Site()))
		full = append(full, t.String())
	}
	sort.Strings(roles)
	roles = uniqStrings(roles)
	return strings.Join(roles, ","), strings.Join(full, " ")
}

// siteFunc strips the line number of a site label "file:func:line".
func siteFunc(site string) string {
	if i := strings.LastIndexByte(site, ':'); i > 0 {
		return site[:i]
	}
	return site
}

func uniqStrings(in []string) []string {
	var out []string
	for i, s := range in {
		if i == 0 || s != in[i-1] {
			out = append(out, s)
		}
	}
	return out
}

var _ = errors.Is

// skeletonRequest extracts version, operations and batch item ids from a generically decoded request.
func skeletonRequest(v ttlv.Value) kmip.RequestMessage {
	var req kmip.RequestMessage
	top, _ := v.Value.(ttlv.Struct)
	for _, f := range top {
		switch f.Tag {
		case kmip.TagRequestHeader:
			hs, _ := f.Value.(ttlv.Struct)
			for _, h := range hs {
				if h.Tag == kmip.TagProtocolVersion {
					vs, _ := h.Value.(ttlv.Struct)
					for _, x := range vs {
						n, _ := x.Value.(int32)
						if x.Tag == kmip.TagProtocolVersionMajor {
							req.Header.ProtocolVersion.ProtocolVersionMajor = n
						}
						if x.Tag == kmip.TagProtocolVersionMinor {
							req.Header.ProtocolVersion.ProtocolVersionMinor = n
						}
					}
				}
				if h.Tag == kmip.TagBatchCount {
					n, _ := h.Value.(int32)
					req.Header.BatchCount = n
				}
			}
		case kmip.TagBatchItem:
			var bi kmip.RequestBatchItem
			is, _ := f.Value.(ttlv.Struct)
			for _, x := range is {
				switch x.Tag {
				case kmip.TagOperation:
					e, _ := x.Value.(ttlv.Enum)
					bi.Operation = kmip.Operation(e)
				case kmip.TagUniqueBatchItemID:
					b, _ := x.Value.([]byte)
					bi.UniqueBatchItemID = b
				case kmip.TagRequestPayload:
					// the only payload detail a scripted peer may need: which object the request is about
					ps, _ := x.Value.(ttlv.Struct)
					for _, pf := range ps {
						if pf.Tag == kmip.TagUniqueIdentifier {
							id, _ := pf.Value.(string)
							bi.RequestPayload = &payloads.ActivateRequestPayload{UniqueIdentifier: id}
						}
					}
				}
			}
			req.BatchItem = append(req.BatchItem, bi)
		}
	}
	return req
}
