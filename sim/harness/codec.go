package harness

import (
	"bytes"
	"encoding/json"
	"fmt"
	"math/big"
	"os"
	"reflect"
	"regexp"
	"strings"
	"sync"
	"time"

	"kmipverif/simrt"

	"github.com/ovh/kmip-go"
	"github.com/ovh/kmip-go/kmipclient"
	"github.com/ovh/kmip-go/payloads"
	"github.com/ovh/kmip-go/ttlv"
)

// ---- C20: codec results do not depend on concurrency or call history

type corpusEntry struct {
	name   string
	value  any        // what is encoded
	target func() any // fresh decode target
	// poison: encoding this value panics half-way by design. The panic is the reference result of the encode
	// operations (decode operations are excluded). On the reused encoders the next Clear() must bring the encoder
	// back to its initial state; an encoder whose Clear() fails is replaced by the harness
	poison bool
	// mangle: applied to the XML / JSON reference encoding before it is decoded: the spelling a foreign peer might use
	mangle func(op int, src []byte) []byte
}

var (
	reXMLEnum  = regexp.MustCompile(`(type="Enumeration" value=")([^"]*)(")`)
	reJSONEnum = regexp.MustCompile(`("type": "Enumeration", "value": ")([^"]*)(")`)
)

// respell rewrites every enumeration name of an XML or JSON document with f.
func respell(f func(string) string) func(int, []byte) []byte {
	return func(op int, src []byte) []byte {
		re := reXMLEnum
		if op == opDecJSON {
			re = reJSONEnum
		}
		return re.ReplaceAllFunc(src, func(m []byte) []byte {
			sm := re.FindSubmatch(m)
			return []byte(string(sm[1]) + f(string(sm[2])) + string(sm[3]))
		})
	}
}

// keepResult says whether a result computed alone is usable as a reference.
func keepResult(e *corpusEntry, op int, r string) bool {
	panicked := len(r) >= 6 && r[:6] == "PANIC:"
	if e.poison {
		return panicked && isEncOp(op)
	}
	return !panicked
}

const (
	opEncTTLV = iota
	opEncXML
	opEncJSON
	opEncText
	opDecTTLV
	opDecXML
	opDecJSON
	opEncTextHide // the text form with the "hide" option: values under tags registered as secret are starred out
	nCodecOps
)

var codecOpNames = []string{"enc-ttlv", "enc-xml", "enc-json", "enc-text", "dec-ttlv", "dec-xml", "dec-json", "enc-text-hide"}

// application-defined types (tags outside the KMIP range, registered by the harness)
type c20Mid struct {
	First   int32  `ttlv:"0x540001"`
	Skipped string `ttlv:"-"`
	Second  string `ttlv:"0x540002"`
	hidden  int
	Third   []byte `ttlv:"0x540003,omitempty"`
	Last    bool   `ttlv:"0x540004"`
}

type c20Edges struct {
	Skipped bool   `ttlv:"-"`
	A       int64  `ttlv:"0x540011"`
	B       string `ttlv:"0x540012"`
	Inner   c20Mid `ttlv:"0x540013"`
	C       int32  `ttlv:"0x540014"`
	Tail    string `ttlv:"-"`
}

func isEncOp(op int) bool { return op <= opEncText || op == opEncTextHide }

func init() {
	// tags the harness declares secret for the text form (the library registers none by itself): a text string and a
	// byte string that occur all over the corpus, and a structure
	ttlv.RegisterHideTag(0x420055)
	ttlv.RegisterHideTag(0x420094)
	ttlv.RegisterHideTag(0x420043)
	ttlv.RegisterHideTag(0x420040)
	ttlv.RegisterTag("VerifAppMid", 0x540000, reflect.TypeFor[c20Mid]())
	ttlv.RegisterTag("VerifAppEdges", 0x540010, reflect.TypeFor[c20Edges]())
	for i, n := range []string{"VerifFirst", "VerifSecond", "VerifThird", "VerifLast"} {
		ttlv.RegisterTag(n, 0x540001+i)
	}
	for i, n := range []string{"VerifA", "VerifB", "VerifInner", "VerifC"} {
		ttlv.RegisterTag(n, 0x540011+i)
	}
}

var (
	corpusOnce sync.Once
	corpus     []corpusEntry
	codecRef   [][]string // [entry][op] -> result (or "" when the operation is excluded)
)

func fixedTime() time.Time { return time.Unix(1700000000, 0).UTC() }

func buildCorpus() {
	var nc *kmipclient.Client // the builders only store the client
	t := true
	reqPayloads := []kmip.OperationPayload{
		nc.Activate("id-1").RequestPayload(),
		nc.Create().AES(256, usage).WithName("key-a").RequestPayload(),
		nc.Create().TDES(168, usage).WithName("key-b").WithUsageLimit(100, kmip.UsageLimitsUnitByte).RequestPayload(),
		nc.CreateKeyPair().RSA(2048, kmip.CryptographicUsageSign, kmip.CryptographicUsageVerify).RequestPayload(),
		nc.Get("id-2").WithKeyFormat(kmip.KeyFormatTypeRaw).RequestPayload(),
		nc.Locate().WithName("key-a").WithMaxItems(10).RequestPayload(),
		nc.Register().SecretString(kmip.SecretDataTypePassword, "s3cret").WithName("sec").RequestPayload(),
		nc.Register().Object(symKey()).WithName("sym").RequestPayload(),
		nc.Revoke("id-3").WithRevocationReasonCode(kmip.RevocationReasonCodeKeyCompromise).WithRevocationMessage("gone").RequestPayload(),
		nc.Encrypt("id-4").WithIvCounterNonce([]byte{1, 2, 3, 4}).Data([]byte("plaintext")).RequestPayload(),
		nc.Sign("id-5").Data([]byte("data")).RequestPayload(),
		nc.GetAttributes("id-6", kmip.AttributeNameName, kmip.AttributeNameState).RequestPayload(),
		nc.AddAttribute("id-7", kmip.AttributeNameName, kmip.Name{NameValue: "n", NameType: kmip.NameTypeUninterpretedTextString}).RequestPayload(),
		nc.Query().Operations().Objects().ServerInformation().RequestPayload(),
		&payloads.DiscoverVersionsRequestPayload{ProtocolVersion: []kmip.ProtocolVersion{kmip.V1_4, kmip.V1_2, kmip.V1_0}},
	}
	for vi, v := range []kmip.ProtocolVersion{kmip.V1_0, kmip.V1_2, kmip.V1_4} {
		for pi, pl := range reqPayloads {
			ts := fixedTime()
			msg := &kmip.RequestMessage{Header: kmip.RequestHeader{ProtocolVersion: v, TimeStamp: &ts, BatchCount: 1, ClientCorrelationValue: fmt.Sprintf("ccv-%d", pi),
				BatchOrderOption: &t, AttestationCapableIndicator: &t},
				BatchItem: []kmip.RequestBatchItem{{Operation: pl.Operation(), UniqueBatchItemID: []byte{byte(vi), byte(pi)}, RequestPayload: pl}}}
			if pi%4 == 0 {
				msg.Header.BatchErrorContinuationOption = kmip.BatchErrorContinuationOptionStop
			}
			corpus = append(corpus, corpusEntry{name: fmt.Sprintf("req/%v/%T", v, pl), value: msg, target: func() any { return &kmip.RequestMessage{} }})
		}
	}
	for vi, v := range []kmip.ProtocolVersion{kmip.V1_0, kmip.V1_3, kmip.V1_4} {
		for pi, oc := range opCases {
			pl := oc.resp()
			// populate version-gated fields where the payload has them
			switch p := pl.(type) {
			case *payloads.SignResponsePayload:
				p.CorrelationValue = []byte("corr")
			case *payloads.DecryptResponsePayload:
				p.CorrelationValue = []byte("corr")
			case *payloads.LocateResponsePayload:
				n := int32(2)
				p.LocatedItems = &n
			}
			msg := &kmip.ResponseMessage{Header: kmip.ResponseHeader{ProtocolVersion: v, TimeStamp: fixedTime(), BatchCount: 2, ClientCorrelationValue: "ccv", ServerCorrelationValue: "scv"},
				BatchItem: []kmip.ResponseBatchItem{
					{Operation: oc.op, UniqueBatchItemID: []byte{byte(vi), byte(pi)}, ResultStatus: kmip.ResultStatusSuccess, ResponsePayload: pl},
					{Operation: oc.op, UniqueBatchItemID: []byte{9}, ResultStatus: kmip.ResultStatusOperationFailed, ResultReason: kmip.ResultReasonItemNotFound, ResultMessage: "not found"},
				}}
			corpus = append(corpus, corpusEntry{name: fmt.Sprintf("resp/%v/%s", v, oc.name), value: msg, target: func() any { return &kmip.ResponseMessage{} }})
		}
	}
	// bare items without a header: nothing in them sets the protocol version, so they show whether a
	// version left over from an earlier message influences the result
	n2 := int32(2)
	cp1 := &kmip.CryptographicParameters{BlockCipherMode: kmip.BlockCipherModeGCM, PaddingMethod: kmip.PaddingMethodNone, HashingAlgorithm: kmip.HashingAlgorithmSHA_256,
		CryptographicAlgorithm: kmip.CryptographicAlgorithmAES, RandomIV: &t, IVLength: 12, TagLength: 16, InitialCounterValue: &n2, SaltLength: &n2, TrailerField: &n2, PSource: []byte("p")}
	cp2 := &kmip.CryptographicParameters{BlockCipherMode: kmip.BlockCipherModeCBC, DigitalSignatureAlgorithm: kmip.DigitalSignatureAlgorithmSHA_256WithRSAEncryption, MaskGenerator: kmip.MaskGeneratorMGF1}
	for i, b := range []*kmip.CryptographicParameters{cp1, cp2} {
		corpus = append(corpus, corpusEntry{name: fmt.Sprintf("bare-cryptoparams/%d", i), value: b, target: func() any { return &kmip.CryptographicParameters{} }})
	}
	// values handed over as pointers to an interface variable: the dynamic type, not the static one, decides the tag
	pw := "pw"
	var o1 kmip.Object = symKey()
	var o2 kmip.Object = &kmip.SecretData{SecretDataType: kmip.SecretDataTypePassword, KeyBlock: kmip.KeyBlock{KeyFormatType: kmip.KeyFormatTypeOpaque,
		KeyValue: &kmip.KeyValue{Plain: &kmip.PlainKeyValue{KeyMaterial: kmip.KeyMaterial{Bytes: func() *[]byte { b := []byte(pw); return &b }()}}}}}
	var o3 kmip.Object = &kmip.OpaqueObject{OpaqueDataType: kmip.OpaqueDataType(1), OpaqueDataValue: []byte("opaque")}
	corpus = append(corpus, corpusEntry{name: "iface-ptr/SymmetricKey", value: &o1, target: func() any { return &kmip.SymmetricKey{} }})
	corpus = append(corpus, corpusEntry{name: "iface-ptr/SecretData", value: &o2, target: func() any { return &kmip.SecretData{} }})
	corpus = append(corpus, corpusEntry{name: "iface-ptr/OpaqueObject", value: &o3, target: func() any { return &kmip.OpaqueObject{} }})
	var a1 any = cp1
	var a2 any = &kmip.RequestHeader{ProtocolVersion: kmip.V1_2, BatchCount: 2}
	corpus = append(corpus, corpusEntry{name: "any-ptr/CryptographicParameters", value: &a1, target: func() any { return &kmip.CryptographicParameters{} }})
	corpus = append(corpus, corpusEntry{name: "any-ptr/RequestHeader", value: &a2, target: func() any { return &kmip.RequestHeader{} }})
	hdr := &kmip.RequestHeader{ProtocolVersion: kmip.V1_4, BatchCount: 1, ClientCorrelationValue: "ccv", AttestationCapableIndicator: &t}
	corpus = append(corpus, corpusEntry{name: "bare-header/1.4", value: hdr, target: func() any { return &kmip.RequestHeader{} }})
	// attribute lists that carry the same structured attribute more than once (pointer fields, slices): decoding the
	// second occurrence must neither change the first nor inherit from it, within a message and across messages
	for i := 0; i < 3; i++ {
		n1, n2, c1, c2 := int32(10+i), int32(20+i), int64(100+i), int64(200+i)
		tr, fa := true, false
		attrs := []kmip.Attribute{
			{AttributeName: kmip.AttributeNameCryptographicParameters, AttributeValue: kmip.CryptographicParameters{BlockCipherMode: kmip.BlockCipherModeGCM, RandomIV: &tr, SaltLength: &n1, InitialCounterValue: &n1}},
			{AttributeName: kmip.AttributeNameUsageLimits, AttributeValue: kmip.UsageLimits{UsageLimitsTotal: 1000, UsageLimitsCount: &c1, UsageLimitsUnit: kmip.UsageLimitsUnitByte}},
			{AttributeName: kmip.AttributeNameCertificateSubject, AttributeValue: kmip.CertificateSubject{CertificateSubjectDistinguishedName: fmt.Sprintf("CN=a%d", i), CertificateSubjectAlternativeName: []string{fmt.Sprintf("alt-%d-1", i), fmt.Sprintf("alt-%d-2", i)}}},
			{AttributeName: kmip.AttributeNameCryptographicParameters, AttributeValue: kmip.CryptographicParameters{BlockCipherMode: kmip.BlockCipherModeCBC, RandomIV: &fa, SaltLength: &n2, TrailerField: &n2}},
			{AttributeName: kmip.AttributeNameUsageLimits, AttributeValue: kmip.UsageLimits{UsageLimitsTotal: 2000, UsageLimitsCount: &c2, UsageLimitsUnit: kmip.UsageLimitsUnitObject}},
			{AttributeName: kmip.AttributeNameCertificateSubject, AttributeValue: kmip.CertificateSubject{CertificateSubjectDistinguishedName: fmt.Sprintf("CN=b%d", i), CertificateSubjectAlternativeName: []string{fmt.Sprintf("alt-%d-3", i)}}},
		}
		msg := &kmip.ResponseMessage{Header: kmip.ResponseHeader{ProtocolVersion: kmip.V1_4, TimeStamp: fixedTime(), BatchCount: 1},
			BatchItem: []kmip.ResponseBatchItem{{Operation: kmip.OperationGetAttributes, ResultStatus: kmip.ResultStatusSuccess,
				ResponsePayload: &payloads.GetAttributesResponsePayload{UniqueIdentifier: fmt.Sprintf("id-%d", i), Attribute: attrs}}}}
		corpus = append(corpus, corpusEntry{name: fmt.Sprintf("repeated-attributes/%d", i), value: msg, target: func() any { return &kmip.ResponseMessage{} }})
	}
	// one payload type whose tagless interface field holds objects of different concrete types (the tag written for the
	// field is the object's own)
	for i, ob := range []kmip.Object{o1, o2, o3, &kmip.Certificate{CertificateType: kmip.CertificateTypeX_509, CertificateValue: []byte("not-a-real-certificate")}} {
		ot := []kmip.ObjectType{kmip.ObjectTypeSymmetricKey, kmip.ObjectTypeSecretData, kmip.ObjectTypeOpaqueObject, kmip.ObjectTypeCertificate}[i]
		msg := &kmip.ResponseMessage{Header: kmip.ResponseHeader{ProtocolVersion: kmip.V1_4, TimeStamp: fixedTime(), BatchCount: 1},
			BatchItem: []kmip.ResponseBatchItem{{Operation: kmip.OperationGet, ResultStatus: kmip.ResultStatusSuccess,
				ResponsePayload: &payloads.GetResponsePayload{ObjectType: ot, UniqueIdentifier: fmt.Sprintf("obj-%d", i), Object: ob}}}}
		corpus = append(corpus, corpusEntry{name: fmt.Sprintf("get-response/%d", i), value: msg, target: func() any { return &kmip.ResponseMessage{} }})
	}
	// negative big integers, as generic values and inside a typed structure (an encoder must not touch its input)
	for i, sh := range []uint{3, 70, 200} {
		nb := new(big.Int).Lsh(big.NewInt(int64(-12345-i)), sh)
		v := ttlv.Value{Tag: 0x420078, Value: ttlv.Struct{{Tag: 0x420069, Value: int32(i)}, {Tag: 0x42003E, Value: nb}, {Tag: 0x42003F, Value: new(big.Int).Neg(nb)}}}
		corpus = append(corpus, corpusEntry{name: fmt.Sprintf("negative-bigint/%d", i), value: v, target: func() any { return &ttlv.Value{} }})
	}
	// text strings that need escaping in the XML / JSON / text forms (quotes, backslashes, control characters,
	// non-ASCII, long): several different ones, so that concurrent encodes cannot pass for each other
	for i, txt := range []string{"say \"hello\" \\ twice", "n\u00e4me-\u00fcnicode-\u4e2d\u6587", "ctrl-\x01-\x1f-\x7f-tab\tnl\n", strings.Repeat("<&>'\"", 40), "plain-but-long-" + strings.Repeat("x", 300)} {
		v := ttlv.Value{Tag: 0x420078, Value: ttlv.Struct{{Tag: 0x420055, Value: txt}, {Tag: 0x420069, Value: int32(i)}, {Tag: 0x420094, Value: txt + "|" + txt}}}
		corpus = append(corpus, corpusEntry{name: fmt.Sprintf("escaped-text/%d", i), value: v, target: func() any { return &ttlv.Value{} }})
	}
	// the same values as spelled by a foreign peer: enumeration names in another case (whether the decoders accept
	// them is not the point: whatever they do with them must leave nothing behind for later calls)
	for _, base := range []int{0, 1, 5, len(corpus) - 12, len(corpus) - 11} {
		if base < 0 || base >= len(corpus) {
			continue
		}
		b := corpus[base]
		for k, f := range []func(string) string{strings.ToUpper, strings.ToLower} {
			corpus = append(corpus, corpusEntry{name: fmt.Sprintf("respelled/%d/%s", k, b.name), value: b.value, target: b.target, mangle: respell(f)})
		}
	}
	// one instant written in several time zones (and its neighbours a second away): equal as times and, in the binary
	// form, as bytes; different as XML / JSON / text. What one of them looks like must not depend on the others
	for i, loc := range []*time.Location{time.UTC, time.FixedZone("", 2*3600), time.FixedZone("", -(7*3600 + 1800)), time.FixedZone("", 14*3600)} {
		at := fixedTime().In(loc)
		v := ttlv.Value{Tag: 0x420078, Value: ttlv.Struct{{Tag: 0x420092, Value: at}, {Tag: 0x420069, Value: int32(i)}, {Tag: 0x420001, Value: at.Add(time.Second)}, {Tag: 0x420092, Value: at.Add(-time.Second)}}}
		corpus = append(corpus, corpusEntry{name: fmt.Sprintf("zoned-datetime/%d", i), value: v, target: func() any { return &ttlv.Value{} }})
		msg := &kmip.ResponseMessage{Header: kmip.ResponseHeader{ProtocolVersion: kmip.V1_4, TimeStamp: at, BatchCount: 1},
			BatchItem: []kmip.ResponseBatchItem{{Operation: kmip.OperationGetAttributes, ResultStatus: kmip.ResultStatusSuccess,
				ResponsePayload: &payloads.GetAttributesResponsePayload{UniqueIdentifier: "zoned", Attribute: []kmip.Attribute{{AttributeName: kmip.AttributeNameActivationDate, AttributeValue: at}}}}}}
		corpus = append(corpus, corpusEntry{name: fmt.Sprintf("zoned-message/%d", i), value: msg, target: func() any { return &kmip.ResponseMessage{} }})
	}
	// application-defined structures handled by the reflection plans, with excluded (ttlv:"-") and unexported fields at
	// the front, in the middle and at the end, used in both directions
	for i := 0; i < 3; i++ {
		b := []byte(fmt.Sprintf("bytes-%d", i))
		corpus = append(corpus, corpusEntry{name: fmt.Sprintf("app-struct/mid/%d", i), value: &c20Mid{First: int32(i + 1), Skipped: "never written", Second: fmt.Sprintf("second-%d", i), Third: b, Last: i%2 == 0}, target: func() any { return &c20Mid{} }})
		corpus = append(corpus, corpusEntry{name: fmt.Sprintf("app-struct/edges/%d", i), value: &c20Edges{Skipped: true, A: int64(100 + i), B: fmt.Sprintf("b-%d", i), Inner: c20Mid{First: 7, Second: "inner", Last: true}, C: int32(i), Tail: "never written"}, target: func() any { return &c20Edges{} }})
	}
	// values of types whose TagEncodeTTLV has a pointer receiver, handed over by value (not addressable). The library
	// refuses them with a panic today, which keeps them out of the reference; a tree that accepts them must encode each
	// one from its own content, whatever else is being encoded
	for i := 0; i < 3; i++ {
		bi := kmip.RequestBatchItem{Operation: kmip.OperationActivate, UniqueBatchItemID: []byte{byte(i), 7}, RequestPayload: &payloads.ActivateRequestPayload{UniqueIdentifier: fmt.Sprintf("by-value-%d", i)}}
		corpus = append(corpus, corpusEntry{name: fmt.Sprintf("by-value/batch-item/%d", i), value: bi, target: func() any { return &kmip.RequestBatchItem{} }})
		cv := kmip.CredentialValue{UserPassword: &kmip.CredentialValueUserPassword{Username: fmt.Sprintf("user-%d", i), Password: "p"}}
		corpus = append(corpus, corpusEntry{name: fmt.Sprintf("by-value/credential-value/%d", i), value: cv, target: func() any { return &kmip.CredentialValue{} }})
	}
	// values whose encoding panics half-way (negative interval after some content; a Go type the encoder does not
	// support): the panic is the deterministic result of that call, and whatever the aborted call leaves behind
	// (a half-written pooled buffer, a version) must not show in any later result
	poison1 := ttlv.Value{Tag: 0x420078, Value: ttlv.Struct{
		{Tag: 0x420069, Value: int32(41)}, {Tag: 0x42006A, Value: "written before the failure"},
		{Tag: 0x42000A, Value: ttlv.Struct{{Tag: 0x42000B, Value: int64(7)}, {Tag: 0x420043, Value: -5 * time.Second}}}}}
	corpus = append(corpus, corpusEntry{name: "poison/negative-interval", value: poison1, poison: true, target: func() any { return &ttlv.Value{} }})
	type unsupported struct {
		ProtocolVersion kmip.ProtocolVersion
		Weird           map[string]int
	}
	poison2 := &kmip.RequestMessage{Header: kmip.RequestHeader{ProtocolVersion: kmip.V1_0, BatchCount: 1},
		BatchItem: []kmip.RequestBatchItem{{Operation: kmip.OperationActivate, RequestPayload: &payloads.ActivateRequestPayload{UniqueIdentifier: "x"}, MessageExtension: &kmip.MessageExtension{VendorIdentification: "v", VendorExtension: ttlv.Struct{{Tag: 0x420043, Value: -time.Second}}}}}}
	corpus = append(corpus, corpusEntry{name: "poison/request-1.0-negative-interval", value: poison2, poison: true, target: func() any { return &kmip.RequestMessage{} }})
	_ = unsupported{}
	for i := 0; i < 6; i++ {
		g := simrt.NewTape(simrt.Mix(0xC20, uint64(i)))
		budget := 14
		v := genValue(g, 0, &budget)
		if _, ok := v.Value.(ttlv.Struct); !ok {
			v = ttlv.Value{Tag: 0x420078, Value: ttlv.Struct{v}}
		}
		vv := v
		corpus = append(corpus, corpusEntry{name: fmt.Sprintf("value/%d", i), value: vv, target: func() any { return &ttlv.Value{} }})
	}
}

func freshEncoder(op int) ttlv.Encoder {
	switch op {
	case opEncXML:
		return ttlv.NewXMLEncoder()
	case opEncJSON:
		return ttlv.NewJSONEncoder()
	case opEncText:
		return ttlv.NewTextEncoder()
	case opEncTextHide:
		return ttlv.NewTextEncoder(true)
	}
	return ttlv.NewTTLVEncoder()
}

// codecOp executes one operation on one corpus entry and renders the result as a string.
// encode operations on a reused encoder pass enc != nil.
// clearThroughCopy is set by the reused-encoder task for the duration of one step (single-threaded under the baton).
var clearThroughCopy bool

func codecOp(e *corpusEntry, op int, enc *ttlv.Encoder) (res string) {
	defer func() {
		if r := recover(); r != nil {
			res = fmt.Sprintf("PANIC: %v", r)
		}
	}()
	switch op {
	case opEncTTLV, opEncXML, opEncJSON, opEncText, opEncTextHide:
		if enc == nil && op == opEncTextHide {
			// (there is no Marshal function for this form: a fresh encoder per call)
			fe := freshEncoder(op)
			fe.Any(e.value)
			return string(bytes.Clone(fe.Bytes()))
		}
		if enc != nil {
			// an encoder whose Clear() itself fails (after an aborted encode) cannot be "a reused, cleared encoder":
			// it is discarded and replaced, and says nothing either way
			func() {
				defer func() {
					if recover() != nil {
						*enc = freshEncoder(op)
					}
				}()
				if clearThroughCopy {
					cp := *enc
					cp.Clear()
				} else {
					enc.Clear()
				}
			}()
			enc.Any(e.value)
			return string(bytes.Clone(enc.Bytes()))
		}
		switch op {
		case opEncTTLV:
			return string(ttlv.MarshalTTLV(e.value))
		case opEncXML:
			return string(ttlv.MarshalXML(e.value))
		case opEncJSON:
			return string(ttlv.MarshalJSON(e.value))
		default:
			return string(ttlv.MarshalText(e.value))
		}
	default:
		// decode the reference encoding of the matching format, then render the decoded value as TTLV
		var src []byte
		tgt := e.target()
		var err error
		switch op {
		case opDecTTLV:
			src = []byte(codecRef[entryIndex(e)][opEncTTLV])
			err = ttlv.UnmarshalTTLV(bytes.Clone(src), tgt)
		case opDecXML:
			src = []byte(codecRef[entryIndex(e)][opEncXML])
			if e.mangle != nil {
				src = e.mangle(op, src)
			}
			err = ttlv.UnmarshalXML(bytes.Clone(src), tgt)
		case opDecJSON:
			src = []byte(codecRef[entryIndex(e)][opEncJSON])
			if e.mangle != nil {
				src = e.mangle(op, src)
			}
			err = ttlv.UnmarshalJSON(bytes.Clone(src), tgt)
		}
		if err != nil {
			return "ERR: " + err.Error()
		}
		return "OK: " + string(ttlv.MarshalTTLV(tgt))
	}
}

func entryIndex(e *corpusEntry) int {
	for i := range corpus {
		if &corpus[i] == e {
			return i
		}
	}
	return -1
}

// codecReference computes every result alone, sequentially, each from a cold plan cache.
func codecReference() {
	corpusOnce.Do(func() {
		buildCorpus()
		codecRef = make([][]string, len(corpus))
		for i := range corpus {
			codecRef[i] = make([]string, nCodecOps)
		}
		// Preferred: the reference computed by the driver with ONE FRESH PROCESS PER CORPUS ENTRY ("alone in a
		// fresh process" taken literally). An in-process reference is computed entry after entry in the same
		// process and would silently absorb any process-wide state an earlier entry leaves behind.
		if path := os.Getenv("KMIPVERIF_CODEC_REF"); path != "" {
			if raw, err := os.ReadFile(path); err == nil {
				var ref [][][]byte // results are byte strings: base64 in the file
				if json.Unmarshal(raw, &ref) == nil && len(ref) == len(corpus) {
					for i := range ref {
						for op := range ref[i] {
							if op < nCodecOps {
								codecRef[i][op] = string(ref[i][op])
							}
						}
					}
					resetCodecCaches()
					return
				}
			}
		}
		for op := 0; op < nCodecOps; op++ {
			for i := range corpus {
				resetCodecCaches()
				r := codecOp(&corpus[i], op, nil)
				resetCodecCaches()
				r2 := codecOp(&corpus[i], op, nil)
				if r != r2 || !keepResult(&corpus[i], op, r) {
					r = "" // not deterministic even alone, or panics: excluded from the corpus operations
				}
				codecRef[i][op] = r
			}
		}
		resetCodecCaches()
	})
}

type CodecStep struct {
	Entry int `json:"e"`
	Op    int `json:"op"`
	// Copy (steps on reused encoders): the encoder is cleared through a copy of its value (an Encoder is a small
	// value holding references: the variable of a range loop, a value receiver, a helper taking it by value all
	// designate the same encoder)
	Copy bool `json:"copy,omitempty"`
}

type C20Sc struct {
	Tasks   [][]CodecStep `json:"tasks"`
	History []CodecStep   `json:"history,omitempty"` // executed by one extra task on reused, cleared encoders (encode ops only)
	Warm    []CodecStep   `json:"warm,omitempty"`    // executed sequentially before the tasks start (history of other calls)
}

func genC20(g *simrt.Tape, tier string) any {
	codecReference()
	sc := &C20Sc{}
	step := func(encOnly bool) CodecStep {
		n := nCodecOps
		if encOnly {
			n = 5
		}
		// bias towards a small working set so that tasks meet on the same types
		var e int
		if g.Draw(3) == 0 {
			e = g.Draw(len(corpus))
		} else {
			base := g.Draw(len(corpus))
			e = (base/8*8 + g.Draw(8)) % len(corpus)
		}
		op := g.Draw(n)
		if encOnly && op == 4 {
			op = opEncTextHide
		}
		return CodecStep{Entry: e, Op: op}
	}
	for i, n := 0, g.Draw(4); i < n; i++ {
		sc.Warm = append(sc.Warm, step(false))
	}
	nt := 2 + g.Draw(5)
	for t := 0; t < nt; t++ {
		var steps []CodecStep
		for i, n := 0, 1+g.Draw(8); i < n; i++ {
			steps = append(steps, step(false))
		}
		sc.Tasks = append(sc.Tasks, steps)
	}
	if g.Draw(2) == 0 {
		for i, n := 0, 2+g.Draw(10); i < n; i++ {
			st := step(true)
			st.Copy = g.Draw(3) == 0
			sc.History = append(sc.History, st)
		}
	}
	return sc
}

func decodeC20(raw json.RawMessage) (any, error) {
	codecReference()
	sc := &C20Sc{}
	return sc, json.Unmarshal(raw, sc)
}

func diffAt(a, b string) string {
	n := min(len(a), len(b))
	i := 0
	for i < n && a[i] == b[i] {
		i++
	}
	lo := max(0, i-12)
	return fmt.Sprintf("first difference at byte %d of %d/%d: got …%q want …%q", i, len(a), len(b), a[lo:min(len(a), i+24)], b[lo:min(len(b), i+24)])
}

func execC20(x *X, scAny any) {
	codecReference()
	sc := scAny.(*C20Sc)
	s := x.S
	resetCodecCaches()
	check := func(who string, st CodecStep, got string) {
		if st.Entry >= len(corpus) || st.Op >= nCodecOps {
			return
		}
		want := codecRef[st.Entry][st.Op]
		if want == "" {
			return
		}
		if got != want {
			kind := "encode"
			if st.Op >= opDecTTLV {
				kind = "decode"
			}
			x.Reportf("C20.result-differs", kind+":"+who, "%s: %s of %s differs from the result computed alone on a cold cache: %s", who, codecOpNames[st.Op], corpus[st.Entry].name, diffAt(got, want))
		}
	}
	valid := func(st CodecStep) bool {
		return st.Entry >= 0 && st.Entry < len(corpus) && st.Op >= 0 && st.Op < nCodecOps && codecRef[st.Entry][st.Op] != ""
	}
	started := false
	s.Spawn("warm", func() {
		for _, st := range sc.Warm {
			if valid(st) {
				check("after-history", st, codecOp(&corpus[st.Entry], st.Op, nil))
			}
		}
		started = true
	})
	for ti, steps := range sc.Tasks {
		ti, steps := ti, steps
		s.Spawn(fmt.Sprintf("codec%d", ti), func() {
			s.WaitUntil("warm-done", func() bool { return started })
			for _, st := range steps {
				if !valid(st) {
					continue
				}
				s.Eventf("t%d %s #%d", ti, codecOpNames[st.Op], st.Entry)
				check("concurrent", st, codecOp(&corpus[st.Entry], st.Op, nil))
			}
		})
	}
	if len(sc.History) > 0 {
		s.Spawn("reused-encoders", func() {
			s.WaitUntil("warm-done", func() bool { return started })
			encs := make([]ttlv.Encoder, nCodecOps)
			for op := 0; op < nCodecOps; op++ {
				if isEncOp(op) {
					encs[op] = freshEncoder(op)
				}
			}
			for _, st := range sc.History {
				if !valid(st) || !isEncOp(st.Op) {
					continue
				}
				s.Eventf("reused %s #%d", codecOpNames[st.Op], st.Entry)
				clearThroughCopy = st.Copy
				r := codecOp(&corpus[st.Entry], st.Op, &encs[st.Op])
				clearThroughCopy = false
				check("reused-encoder", st, r)
			}
		})
	}
	s.Run()
	x.CommonOracles("C20")
	for _, t := range s.Result().Alive {
		x.Reportf("C20.hang", "task", "codec task %s has not finished", t)
		break
	}
}

func c20Floor(tier string) []*C20Sc {
	codecReference()
	// every corpus entry: two tasks performing the same operation at once from a cold cache, for every operation
	var out []*C20Sc
	for e := range corpus {
		for op := 0; op < nCodecOps; op++ {
			if codecRef[e][op] == "" {
				continue
			}
			st := CodecStep{Entry: e, Op: op}
			other := CodecStep{Entry: (e + 1) % len(corpus), Op: (op + 4) % nCodecOps}
			out = append(out, &C20Sc{Tasks: [][]CodecStep{{st}, {st}, {other, st}}})
		}
	}
	return out
}

// c20SweepFloor: two tasks perform the same operation on two *different* small values at once; the sweep then places
// one preemption at every yield of the run and lets the other task run from there. Shared scratch state inside the
// writers and readers (a window of two or three statements) cannot slip through a random schedule here.
func c20SweepFloor(tier string) []*C20Sc {
	codecReference()
	idx := func(name string) int {
		for i := range corpus {
			if corpus[i].name == name {
				return i
			}
		}
		return -1
	}
	pairs := [][2]string{{"escaped-text/0", "escaped-text/1"}, {"escaped-text/2", "escaped-text/0"}, {"get-response/1", "get-response/2"}, {"zoned-datetime/0", "zoned-datetime/1"}}
	if tier == "thorough" {
		pairs = append(pairs, [2]string{"zoned-message/2", "zoned-message/0"}, [2]string{"by-value/batch-item/0", "by-value/batch-item/1"}, [2]string{"zoned-datetime/3", "zoned-datetime/2"}, [2]string{"escaped-text/1", "escaped-text/2"}, [2]string{"bare-cryptoparams/0", "bare-cryptoparams/1"}, [2]string{"value/0", "value/1"}, [2]string{"get-response/0", "get-response/3"}, [2]string{"get-response/2", "get-response/0"})
	}
	var out []*C20Sc
	for _, pr := range pairs {
		a, b := idx(pr[0]), idx(pr[1])
		if a < 0 || b < 0 {
			continue
		}
		for op := 0; op < nCodecOps; op++ {
			if codecRef[a][op] == "" || codecRef[b][op] == "" {
				continue
			}
			out = append(out, &C20Sc{Tasks: [][]CodecStep{{{Entry: a, Op: op}}, {{Entry: b, Op: op}}}})
		}
	}
	return out
}

func init() {
	register(&Prop{
		ID: "C20", Engine: "codec",
		Generate: genC20, Decode: decodeC20, Execute: execC20,
		Config: func(any) simrt.Config { return simrt.Config{MaxSteps: 400000, MaxYields: 50000000, CodecYields: true} },
		Runs:   clientRuns(50000, 3000000),
		Floors: []Floor{{Name: "same-op-twice-cold", Count: func(t string) int { return len(c20Floor(t)) }, Scenario: func(t string, i int) any { return c20Floor(t)[i] }},
			{Name: "two-values-every-single-preemption", Sweep: true, Count: func(t string) int { return len(c20SweepFloor(t)) }, Scenario: func(t string, i int) any { return c20SweepFloor(t)[i] }}},
		Rule: "one evaluation = one simulated run starting from cold plan caches in which 2-6 tasks each execute 1-8 corpus operations (encode to TTLV/XML/JSON/text, decode from TTLV/XML/JSON; corpus = request/response messages of 15 request payloads and 27 response payloads at three protocol versions each with version-gated fields populated, plus generic TTLV trees), optionally preceded by a sequential history and accompanied by a task encoding on reused, cleared encoders, with preemptions at statement granularity inside ttlv/encoder.go and ttlv/decoder.go; distinct = distinct event-log hashes among runs with at least one preemption",
		Components: map[string][]string{
			"real": {"ttlv encoders/decoders (binary, XML, JSON, text) incl. lazily built per-type plan caches", "kmip message/payload/object types and registries", "kmipclient request builders (to build the corpus)"},
			"stub": {"scheduler (baton)", "plan-cache reset function added by the overlay (ttlv/zz_kmipverif.go)"},
		},
		Assumptions: []string{"the data-race clause cannot be observed by a serialising simulator; it is checked by a separate, clearly labelled non-simulation step of the thorough tier (go test -race on real goroutines)", "corpus operations that are not deterministic even when run alone, or that panic, are excluded and counted"},
	})
}

// resetCodecCaches empties every lazily filled process-wide cache the overlay knows about.
func resetCodecCaches() {
	ttlv.VerifResetPlanCaches()
	kmip.VerifResetCaches()
	payloads.VerifResetCaches()
}
