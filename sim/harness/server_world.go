package harness

import (
	"bytes"
	"context"
	"errors"
	"fmt"
	"math"
	"net"
	"strconv"
	"strings"
	"time"

	"kmipverif/simnet"
	"kmipverif/simrt"

	"github.com/ovh/kmip-go"
	"github.com/ovh/kmip-go/kmipserver"
	"github.com/ovh/kmip-go/payloads"
	"github.com/ovh/kmip-go/ttlv"
)

// ---- shared pieces of the server engine (C08, C09, C15, C16, C19-server)

// The scripted operation handler is driven by the request item's token:
//
//	<id>|<action>,<action>,...
//
// actions: ok | et (typed error) | ep (plain error) | pe ps pS pi pn pk pK pm (panic with error, string,
// Stringer, int, nil dereference, kmipserver.Error, wrapped kmipserver.Error, nil-map write) | sl<ms> (sleep, returns early when ctx is cancelled) | sL<ms>
// (sleep ignoring ctx) | y<k> (k scheduling points) | pr (read placeholder) | pw (store a fresh
// placeholder value) | pc (clear) | pg (GetIdOrPlaceholder("")) | cx (return ctx error if cancelled)

type hEvent struct {
	Token   string // full token
	ID      string // id part
	Kind    string // start | end | read | set | clear | get | ctxdone
	Value   string
	Err     bool
	At      time.Duration
	Seq     int
	ConnID  string
	CtxMark string
}

type stringerVal struct{ s string }

func (s stringerVal) String() string { return s.s }

type serverWorld struct {
	tls              bool                          // the listener hands out simulated TLS connections
	serveYields      int                           // scheduling points before Serve is called
	cancelOf         map[string]context.CancelFunc // per request prefix (direct callers with ReqSc.Ctx == 2)
	x                *X
	s                *simrt.Sim
	exec             *kmipserver.BatchExecutor
	ln               *simnet.Listener
	srv              *kmipserver.Server
	trace            []hEvent
	seq              int
	running          int // handlers currently executing
	started          int
	setCount         int
	serveErr         error
	serveReturned    bool
	shutdownBegan    time.Duration
	shutdownCalled   bool
	shutdownReturned bool
}

func (w *serverWorld) record(ev hEvent) {
	w.seq++
	ev.Seq = w.seq
	ev.At = w.s.Now()
	w.trace = append(w.trace, ev)
}

func tokenID(tok string) string {
	if i := strings.IndexByte(tok, '|'); i >= 0 {
		return tok[:i]
	}
	return tok
}

func tokenActions(tok string) []string {
	if i := strings.IndexByte(tok, '|'); i >= 0 && i+1 < len(tok) {
		return strings.Split(tok[i+1:], ",")
	}
	return nil
}

type ctxMarkKey struct{}
type detachedKey struct{}

// handle is the scripted operation handler.
func (w *serverWorld) handle(ctx context.Context, p *payloads.ActivateRequestPayload) (*payloads.ActivateResponsePayload, error) {
	tok := p.UniqueIdentifier
	id := tokenID(tok)
	mark, _ := ctx.Value(ctxMarkKey{}).(string)
	w.running++
	w.started++
	w.record(hEvent{Token: tok, ID: id, Kind: "start", ConnID: kmipserver.RemoteAddr(ctx), CtxMark: mark})
	w.s.Eventf("handler start %s", id)
	// detached: the placeholder accessors are called with a context that does not descend from the one the executor
	// handed out (a batch-item middleware or the handler itself swapped it). Nothing can be stored through such a
	// context, and whatever is read through it must be empty: it is nobody's request
	detached := ctx.Value(detachedKey{}) != nil
	detSet := false
	octx := ctx
	defer func() {
		w.running--
		w.record(hEvent{Token: tok, ID: id, Kind: "end", ConnID: kmipserver.RemoteAddr(octx), Err: detSet})
		w.s.Eventf("handler end %s", id)
	}()
	var result error
	answerWithPlaceholder := false
	for _, a := range tokenActions(tok) {
		switch {
		case a == "ok" || a == "":
		case a == "pu":
			// the operation resolves its object through the placeholder and names it in its response, as a Destroy
			// or Activate without an explicit identifier does
			answerWithPlaceholder = true
		case a == "et":
			result = kmipserver.Errorf(kmip.ResultReasonItemNotFound, "typed failure of %s", id)
		case a == "ep":
			result = errors.New("plain failure of " + id)
		case a == "eL":
			// a typed error built as a literal, not through Errorf
			result = kmipserver.Error{Reason: kmip.ResultReasonPermissionDenied, Message: "typed literal failure of " + id}
		case a == "eW":
			// ... and one wrapped in another error
			result = fmt.Errorf("handler of %s: %w", id, kmipserver.Error{Reason: kmip.ResultReasonItemNotFound})
		case a == "pe":
			panic(errors.New("panic(error) in " + id))
		case a == "ps":
			panic("panic(string) in " + id)
		case a == "pS":
			panic(stringerVal{"panic(Stringer) in " + id})
		case a == "pi":
			panic(42)
		case a == "pk":
			panic(kmipserver.Errorf(kmip.ResultReasonPermissionDenied, "panic(kmipserver.Error) in %s", id))
		case a == "pK":
			panic(fmt.Errorf("panic(wrapped kmipserver.Error) in %s: %w", id, kmipserver.ErrItemNotFound))
		case a == "pm":
			var m map[string]int
			m[id] = 1 // runtime.Error: assignment to entry in nil map
		case a == "pn":
			var np *payloads.ActivateRequestPayload
			_ = np.UniqueIdentifier
		case a == "nn":
			// a handler that returns neither a payload nor an error
			return nil, nil
		case a == "cc":
			if cancel := w.cancelOf[requestOf(id)]; cancel != nil {
				w.s.Fault("handler-cancels-request-context")
				cancel()
			}
		case a == "cx":
			if err := ctx.Err(); err != nil {
				w.record(hEvent{Token: tok, ID: id, Kind: "ctxdone"})
				return nil, err
			}
		case strings.HasPrefix(a, "sl"), strings.HasPrefix(a, "sL"):
			ms, _ := strconv.Atoi(a[2:])
			d := time.Duration(ms) * time.Millisecond
			if a[1] == 'L' {
				w.s.Sleep(d)
			} else {
				dl := time.Now().Add(d)
				w.s.Deadline(dl)
				w.s.WaitUntil("handler-sleep", func() bool { return !time.Now().Before(dl) || ctx.Err() != nil })
				if ctx.Err() != nil {
					w.record(hEvent{Token: tok, ID: id, Kind: "ctxdone"})
					w.s.Eventf("handler %s sees ctx cancelled", id)
				}
			}
		case strings.HasPrefix(a, "y"):
			k, _ := strconv.Atoi(a[1:])
			for i := 0; i < max(k, 1); i++ {
				simrt.Yield("handler-yield")
				w.s.YieldNow("handler-dally")
			}
		case a == "dx":
			w.s.Fault("placeholder-through-detached-context")
			ctx = context.WithValue(context.Background(), detachedKey{}, true)
			detached = true
		case detached && (a == "pr" || a == "pg"):
			v, err := kmipserver.GetIdOrPlaceholder(ctx, "")
			if a == "pr" {
				v, err = kmipserver.IdPlaceholder(ctx), nil
			}
			if err != nil {
				v = ""
			}
			w.record(hEvent{Token: tok, ID: id, Kind: "dread", Value: v})
		case detached && (a == "pw" || a == "pz"):
			// the library panics here ("not in a batch context"), the item fails; a tree that does not must still keep
			// the value away from everybody else
			detSet = true
			w.setCount++
			v := fmt.Sprintf("ph-%s-%d", id, w.setCount)
			if a == "pz" {
				v = ""
			}
			kmipserver.SetIdPlaceholder(ctx, v)
		case detached && a == "pc":
			kmipserver.ClearIdPlaceholder(ctx)
		case a == "pr":
			w.record(hEvent{Token: tok, ID: id, Kind: "read", Value: kmipserver.IdPlaceholder(ctx)})
		case a == "pw":
			w.setCount++
			v := fmt.Sprintf("ph-%s-%d", id, w.setCount)
			// (identifiers are text strings: some come with surrounding blanks, and are stored and read back verbatim)
			switch w.setCount % 4 {
			case 1:
				v += " "
			case 3:
				v = "\t" + v + "\n"
			}
			kmipserver.SetIdPlaceholder(ctx, v)
			w.record(hEvent{Token: tok, ID: id, Kind: "set", Value: v})
		case a == "nq":
			// a request issued from inside the handler, with the handler's own context, on the same executor: it is
			// another request message and starts with an empty placeholder of its own
			conn := connOf(id)
			rest := strings.ReplaceAll(strings.TrimPrefix(id, conn+"."), ".", "_")
			inner := buildRequest(&ReqSc{Version: 4, Items: []ItemSc{{Tok: "pr"}, {Tok: "pw"}, {Tok: "pr"}}}, conn+".n"+rest)
			w.s.Fault("nested-request")
			_ = w.exec.HandleRequest(ctx, inner)
		case a == "pz":
			// an empty value is a value too
			kmipserver.SetIdPlaceholder(ctx, "")
			w.record(hEvent{Token: tok, ID: id, Kind: "set", Value: ""})
		case a == "px":
			// an explicit id wins over the placeholder and leaves it alone
			want := "explicit-" + id
			v, err := kmipserver.GetIdOrPlaceholder(ctx, want)
			w.record(hEvent{Token: tok, ID: id, Kind: "getx", Value: v, Err: err != nil || v != want})
		case a == "pc":
			kmipserver.ClearIdPlaceholder(ctx)
			w.record(hEvent{Token: tok, ID: id, Kind: "clear"})
		case a == "pg":
			v, err := kmipserver.GetIdOrPlaceholder(ctx, "")
			w.record(hEvent{Token: tok, ID: id, Kind: "get", Value: v, Err: err != nil})
		}
	}
	if result != nil {
		return nil, result
	}
	if answerWithPlaceholder {
		if v := kmipserver.IdPlaceholder(ctx); v != "" {
			return &payloads.ActivateResponsePayload{UniqueIdentifier: v}, nil
		}
	}
	return &payloads.ActivateResponsePayload{UniqueIdentifier: tok}, nil
}

// requestContext builds the context a direct HandleRequest caller passes for this request.
func (w *serverWorld) requestContext(rs *ReqSc, prefix string) context.Context {
	switch rs.Ctx {
	case 1:
		ctx, cancel := context.WithCancel(context.Background())
		cancel()
		w.s.Fault("request-context-cancelled")
		return ctx
	case 2:
		ctx, cancel := context.WithCancel(context.Background())
		w.cancelOf[prefix] = cancel
		return ctx
	}
	return context.Background()
}

func newServerWorld(x *X) *serverWorld {
	w := &serverWorld{x: x, s: x.S, cancelOf: map[string]context.CancelFunc{}}
	w.exec = kmipserver.NewBatchExecutor()
	w.exec.Route(kmip.OperationActivate, kmipserver.HandleFunc(w.handle))
	// a second routed operation with the same scripted behaviour (C19 substitutes batch items across operations)
	w.exec.Route(kmip.OperationRevoke, kmipserver.HandleFunc(func(ctx context.Context, p *payloads.RevokeRequestPayload) (*payloads.RevokeResponsePayload, error) {
		r, err := w.handle(ctx, &payloads.ActivateRequestPayload{UniqueIdentifier: p.UniqueIdentifier})
		if err != nil || r == nil {
			return nil, err
		}
		return &payloads.RevokeResponsePayload{UniqueIdentifier: r.UniqueIdentifier}, nil
	}))
	w.exec.Route(kmip.OperationDestroy, kmipserver.HandleFunc(func(ctx context.Context, p *payloads.DestroyRequestPayload) (*payloads.DestroyResponsePayload, error) {
		r, err := w.handle(ctx, &payloads.ActivateRequestPayload{UniqueIdentifier: p.UniqueIdentifier})
		if err != nil || r == nil {
			return nil, err
		}
		return &payloads.DestroyResponsePayload{UniqueIdentifier: r.UniqueIdentifier}, nil
	}))
	w.exec.Route(kmip.OperationArchive, kmipserver.HandleFunc(func(ctx context.Context, p *payloads.ArchiveRequestPayload) (*payloads.ArchiveResponsePayload, error) {
		r, err := w.handle(ctx, &payloads.ActivateRequestPayload{UniqueIdentifier: p.UniqueIdentifier})
		if err != nil || r == nil {
			return nil, err
		}
		return &payloads.ArchiveResponsePayload{UniqueIdentifier: r.UniqueIdentifier}, nil
	}))
	w.exec.Route(kmip.OperationRecover, kmipserver.HandleFunc(func(ctx context.Context, p *payloads.RecoverRequestPayload) (*payloads.RecoverResponsePayload, error) {
		r, err := w.handle(ctx, &payloads.ActivateRequestPayload{UniqueIdentifier: p.UniqueIdentifier})
		if err != nil || r == nil {
			return nil, err
		}
		return &payloads.RecoverResponsePayload{UniqueIdentifier: r.UniqueIdentifier}, nil
	}))
	return w
}

// routeDiscover registers an application handler for Discover Versions (a legal configuration: it replaces the
// executor's built-in answer), scripted through pseudo versions in the request's list.
func (w *serverWorld) routeDiscover() {
	w.exec.Route(kmip.OperationDiscoverVersions, kmipserver.HandleFunc(func(ctx context.Context, p *payloads.DiscoverVersionsRequestPayload) (*payloads.DiscoverVersionsResponsePayload, error) {
		for _, v := range p.ProtocolVersion {
			if v.ProtocolVersionMajor == 9 {
				switch v.ProtocolVersionMinor {
				case 1:
					return nil, kmipserver.Errorf(kmip.ResultReasonPermissionDenied, "routed discovery refuses")
				case 2:
					panic(errors.New("panic(error) in the routed discovery handler"))
				case 3:
					return nil, nil
				}
			}
		}
		return &payloads.DiscoverVersionsResponsePayload{ProtocolVersion: []kmip.ProtocolVersion{kmip.V1_4, kmip.V1_2}}, nil
	}))
}

// routedDiscovery rewrites the built-in discovery items of a request into items for the routed handler.
func routedDiscovery(rs *ReqSc) {
	for i := range rs.Items {
		if rs.Items[i].Op == "discover" {
			rs.Items[i].Op = "discover-routed"
		}
	}
}

// responseIdentifier returns the identifier carried by the response payload of any of the routed operations.
func responseIdentifier(pl kmip.OperationPayload) (string, bool) {
	switch p := pl.(type) {
	case *payloads.ActivateResponsePayload:
		if p != nil {
			return p.UniqueIdentifier, true
		}
	case *payloads.RevokeResponsePayload:
		if p != nil {
			return p.UniqueIdentifier, true
		}
	case *payloads.DestroyResponsePayload:
		if p != nil {
			return p.UniqueIdentifier, true
		}
	case *payloads.ArchiveResponsePayload:
		if p != nil {
			return p.UniqueIdentifier, true
		}
	case *payloads.RecoverResponsePayload:
		if p != nil {
			return p.UniqueIdentifier, true
		}
	}
	return "", false
}

// startServer creates the listener and runs Serve in a harness task.
func (w *serverWorld) startServer(serverEP func(name string) simnet.EP, acceptLatePM int) {
	w.startServerWith(serverEP, acceptLatePM, nil)
}

func (w *serverWorld) startServerWith(serverEP func(name string) simnet.EP, acceptLatePM int, configure func(*kmipserver.Server)) {
	w.ln = simnet.NewListener(w.s)
	w.ln.TLS = w.tls
	w.ln.ServerEP = serverEP
	w.ln.AcceptLate = acceptLatePM
	w.srv = kmipserver.NewServer(w.ln, w.exec)
	if configure != nil {
		configure(w.srv)
	}
	w.s.Spawn("serve", func() {
		for i := 0; i < w.serveYields; i++ {
			w.s.YieldNow("serve-dally")
		}
		w.serveErr = w.srv.Serve()
		w.serveReturned = true
		w.s.Eventf("serve returned %v", w.serveErr)
	})
}

func (w *serverWorld) shutdown() {
	w.shutdownCalled = true
	w.shutdownBegan = w.s.Now()
	w.s.Eventf("shutdown begins")
	_ = w.srv.Shutdown()
	w.shutdownReturned = true
	w.s.Eventf("shutdown returned")
}

// serverTasksAlive lists the live tasks created by kmipserver code.
func (w *serverWorld) serverTasksAlive() []*simrt.Task { return w.s.AliveSUT("kmipserver") }

// ---- request building

type ItemSc struct {
	Tok  string `json:"tok"`             // handler script: actions part of the token
	Op   string `json:"op,omitempty"`    // "" routed Activate | "unrouted" (Obtain Lease, no route) | "discover" (built-in DiscoverVersions) | "unknown" | "destroy", "archive", "recover", "revoke": other routed operations with the same scripted handler
	NoID bool   `json:"no_id,omitempty"` // no UniqueBatchItemID
	Ext  string `json:"ext,omitempty"`   // "" | "plain" | "critical" message extension
}

type ReqSc struct {
	Version    int      `json:"version"`               // index into allVersions; 5 = unsupported 2.0; 6 = 0.9; 7 = 0.0; 8 = 1.5
	Option     int      `json:"option,omitempty"`      // 0 unset 1 continue 2 stop 3 undo
	CountDelta int      `json:"count_delta,omitempty"` // header BatchCount = len(items) + delta; -1000: -1, -2000: MinInt32, 1000: MaxInt32 (a tree that sizes a buffer by it dies of an out-of-memory fatal error: reported as <id>.process-killed)
	Items      []ItemSc `json:"items"`
	// IDs: how the Unique Batch Item IDs of the items are spelt (the statement only asks that each is echoed): 0 short
	// text | 1 long text with a long common prefix | 2 every item the same id | 3 ids that differ only in the number of
	// trailing zero bytes | 4 eight-byte big-endian counters (what the library's client sends) | 5 300 bytes, different
	// in the last one only | 6 a single byte, 0x00 for the first item
	IDs int `json:"ids,omitempty"`
	// MaxResp: a small Maximum Response Size in the header (the library ignores the element; a tree that honours it
	// may fail an item whose result does not fit with reason Response Too Large, and such an item is then a failed
	// item like any other for the rest of the batch)
	MaxResp int `json:"max_resp,omitempty"`
	// Hdr: optional header elements none of which may change what the properties state
	// bits 0-1 BatchOrderOption (0 absent, 1 true, 2 false) | 4 AsynchronousIndicator=false | 8 MaximumResponseSize
	// | 16 ClientCorrelationValue | 32 no TimeStamp | 64 Authentication (username/password credential)
	// | 128 ServerCorrelationValue, the same in every request | 256 AttestationCapableIndicator + AttestationType list
	// | 512 a ClientCorrelationValue shared by all requests
	Hdr int `json:"hdr,omitempty"`
	// Ctx (direct HandleRequest callers only): 0 a live context, 1 a context that is already cancelled, 2 a context
	// that the handler of the item whose token starts with "cc" cancels. None of this may change the response.
	Ctx int `json:"ctx,omitempty"`
	// Pad: the first item carries a non-critical message extension with a byte string of this many bytes (large but
	// legal requests: the server accepts up to 1 MiB)
	Pad int `json:"pad,omitempty"`
}

// genIDs draws the spelling of the item ids (three quarters of the requests use the short text ids).
func genIDs(g *simrt.Tape) int {
	if g.Draw(4) != 0 {
		return 0
	}
	return 1 + g.Draw(6)
}

func spellID(style int, id string, i int) []byte {
	switch style {
	case 1:
		return []byte("unique-batch-item-identifier-" + id)
	case 2:
		return []byte("same-id")
	case 3:
		return append([]byte("item"), make([]byte, i)...)
	case 4:
		return []byte{0, 0, 0, 0, 0, 0, byte(i >> 8), byte(i)}
	case 5:
		b := bytes.Repeat([]byte{0xA5}, 300)
		b[299] = byte(i)
		return b
	case 6:
		return []byte{byte(i)}
	}
	return []byte(id)
}

// genHdr draws the optional header elements of a request (half of the requests carry none).
func genHdr(g *simrt.Tape) int {
	if g.Draw(2) == 0 {
		return 0
	}
	return g.Draw(3) | g.Draw(256)<<2
}

// allHdrs enumerates every combination of optional header elements.
func allHdrs() []int {
	var out []int
	for o := 0; o < 3; o++ {
		for rest := 0; rest < 256; rest++ {
			out = append(out, o|rest<<2)
		}
	}
	return out
}

func versionOf(i int) kmip.ProtocolVersion {
	switch {
	case i >= 0 && i < len(allVersions):
		return allVersions[i]
	case i == 5:
		return kmip.ProtocolVersion{ProtocolVersionMajor: 2, ProtocolVersionMinor: 0}
	case i == 7:
		return kmip.ProtocolVersion{} // 0.0: what an absent or zeroed version element decodes to
	case i == 8:
		return kmip.ProtocolVersion{ProtocolVersionMajor: 1, ProtocolVersionMinor: 5}
	default:
		return kmip.ProtocolVersion{ProtocolVersionMajor: 0, ProtocolVersionMinor: 9}
	}
}

var optionVals = []kmip.BatchErrorContinuationOption{0, kmip.BatchErrorContinuationOptionContinue, kmip.BatchErrorContinuationOptionStop, kmip.BatchErrorContinuationOptionUndo}

// buildRequest makes the request message of a scenario request; prefix makes tokens and ids unique.
func buildRequest(rs *ReqSc, prefix string) *kmip.RequestMessage {
	ts := time.Unix(1700000000, 0).UTC()
	req := &kmip.RequestMessage{Header: kmip.RequestHeader{ProtocolVersion: versionOf(rs.Version), TimeStamp: &ts,
		BatchErrorContinuationOption: optionVals[rs.Option%4], BatchCount: int32(len(rs.Items) + rs.CountDelta)}}
	switch rs.CountDelta {
	case -1000:
		req.Header.BatchCount = -1
	case -2000:
		req.Header.BatchCount = math.MinInt32
	case 1000:
		req.Header.BatchCount = math.MaxInt32
	}
	switch rs.Hdr & 3 {
	case 1:
		v := true
		req.Header.BatchOrderOption = &v
	case 2:
		v := false
		req.Header.BatchOrderOption = &v
	}
	if rs.Hdr&4 != 0 {
		v := false
		req.Header.AsynchronousIndicator = &v
	}
	if rs.Hdr&8 != 0 {
		req.Header.MaximumResponseSize = 1 << 20
	}
	if rs.MaxResp > 0 {
		req.Header.MaximumResponseSize = int32(rs.MaxResp)
	}
	if rs.Hdr&16 != 0 {
		req.Header.ClientCorrelationValue = "ccv-" + prefix
	}
	if rs.Hdr&32 != 0 {
		req.Header.TimeStamp = nil
	}
	if rs.Hdr&64 != 0 {
		req.Header.Authentication = &kmip.Authentication{Credential: kmip.Credential{CredentialType: kmip.CredentialTypeUsernameAndPassword,
			CredentialValue: kmip.CredentialValue{UserPassword: &kmip.CredentialValueUserPassword{Username: "u-" + prefix, Password: "p"}}}}
	}
	if rs.Hdr&128 != 0 {
		// (the same value in every request that carries one: requests are not related by it)
		req.Header.ServerCorrelationValue = "scv-shared"
	}
	if rs.Hdr&256 != 0 {
		v := rs.Hdr&1 != 0
		req.Header.AttestationCapableIndicator = &v
		req.Header.AttestationType = []kmip.AttestationType{kmip.AttestationTypeTPMQuote, kmip.AttestationTypeSAMLAssertion}
	}
	if rs.Hdr&512 != 0 {
		req.Header.ClientCorrelationValue = "ccv-shared"
	}
	for i, it := range rs.Items {
		id := fmt.Sprintf("%s.%d", prefix, i)
		var bi kmip.RequestBatchItem
		if it.Op == "unrouted" {
			bi = kmip.RequestBatchItem{Operation: kmip.OperationObtainLease, RequestPayload: &payloads.ObtainLeaseRequestPayload{UniqueIdentifier: id + "|" + it.Tok}}
		} else if it.Op == "destroy" {
			bi = kmip.RequestBatchItem{Operation: kmip.OperationDestroy, RequestPayload: &payloads.DestroyRequestPayload{UniqueIdentifier: id + "|" + it.Tok}}
		} else if it.Op == "archive" {
			bi = kmip.RequestBatchItem{Operation: kmip.OperationArchive, RequestPayload: &payloads.ArchiveRequestPayload{UniqueIdentifier: id + "|" + it.Tok}}
		} else if it.Op == "recover" {
			bi = kmip.RequestBatchItem{Operation: kmip.OperationRecover, RequestPayload: &payloads.RecoverRequestPayload{UniqueIdentifier: id + "|" + it.Tok}}
		} else if it.Op == "revoke" {
			bi = kmip.RequestBatchItem{Operation: kmip.OperationRevoke, RequestPayload: &payloads.RevokeRequestPayload{UniqueIdentifier: id + "|" + it.Tok}}
		} else if it.Op == "unknown" {
			// an operation code the library has never heard of, with an opaque payload
			bi = kmip.RequestBatchItem{Operation: kmip.Operation(0x7E), RequestPayload: kmip.NewUnknownPayload(kmip.Operation(0x7E), ttlv.Value{Tag: 0x420094, Value: id + "|" + it.Tok})}
		} else if it.Op == "discover-routed" {
			// the application routes Discover Versions itself; the scripted outcome travels as a pseudo version in
			// the request's list (9.1 typed error, 9.2 panic, 9.3 nothing at all), which the built-in answer would ignore
			list := []kmip.ProtocolVersion{kmip.V1_4, kmip.V1_2}
			for _, a := range strings.Split(it.Tok, ",") {
				switch a {
				case "et":
					list = append(list, kmip.ProtocolVersion{ProtocolVersionMajor: 9, ProtocolVersionMinor: 1})
				case "pe":
					list = append(list, kmip.ProtocolVersion{ProtocolVersionMajor: 9, ProtocolVersionMinor: 2})
				case "nn":
					list = append(list, kmip.ProtocolVersion{ProtocolVersionMajor: 9, ProtocolVersionMinor: 3})
				}
			}
			bi = kmip.RequestBatchItem{Operation: kmip.OperationDiscoverVersions, RequestPayload: &payloads.DiscoverVersionsRequestPayload{ProtocolVersion: list}}
		} else if it.Op == "discover" {
			// answered by the executor itself: no handler runs, the item succeeds
			bi = kmip.RequestBatchItem{Operation: kmip.OperationDiscoverVersions, RequestPayload: &payloads.DiscoverVersionsRequestPayload{}}
		} else {
			bi = kmip.RequestBatchItem{Operation: kmip.OperationActivate, RequestPayload: &payloads.ActivateRequestPayload{UniqueIdentifier: id + "|" + it.Tok}}
		}
		if !it.NoID {
			bi.UniqueBatchItemID = spellID(rs.IDs, id, i)
		}
		switch it.Ext {
		case "plain":
			bi.MessageExtension = &kmip.MessageExtension{VendorIdentification: "verif", CriticalityIndicator: false, VendorExtension: ttlv.Struct{}}
		case "critical":
			bi.MessageExtension = &kmip.MessageExtension{VendorIdentification: "verif", CriticalityIndicator: true, VendorExtension: ttlv.Struct{}}
		}
		if i == 0 && rs.Pad > 0 && bi.MessageExtension == nil {
			pad := make([]byte, rs.Pad)
			for k := range pad {
				pad[k] = byte(k*7 + rs.Pad)
			}
			bi.MessageExtension = &kmip.MessageExtension{VendorIdentification: "verif-pad", CriticalityIndicator: false, VendorExtension: ttlv.Struct{{Tag: 0x420094, Value: pad}}}
		}
		req.BatchItem = append(req.BatchItem, bi)
	}
	return req
}

// itemFails tells whether the scripted outcome of an item is a failure (error or panic).
func itemFails(it ItemSc) bool {
	if it.Op == "unrouted" || it.Op == "unknown" || it.Ext == "critical" {
		return true
	}
	if it.Op == "discover" {
		return false // answered by the executor itself; the scripted outcome never runs
	}
	if it.Op == "discover-routed" {
		for _, a := range strings.Split(it.Tok, ",") {
			if a == "et" || a == "pe" {
				return true
			}
		}
		return false
	}
	for _, a := range strings.Split(it.Tok, ",") {
		switch a {
		case "et", "ep", "eL", "eW", "pe", "ps", "pS", "pi", "pn", "pk", "pK", "pm":
			return true
		}
	}
	return false
}

// itemRunsHandler: does the handler run at all for this item (when it is reached)?
func itemRunsHandler(it ItemSc) bool {
	return it.Op != "unrouted" && it.Op != "unknown" && it.Op != "discover" && it.Op != "discover-routed" && it.Ext != "critical"
}

type netConn = net.Conn
