package harness

import (
	"context"
	"encoding/json"
	"fmt"
	"strings"
	"time"

	"kmipverif/simnet"
	"kmipverif/simrt"

	"github.com/ovh/kmip-go"
	"github.com/ovh/kmip-go/kmipserver"
	"github.com/ovh/kmip-go/ttlv"
)

// ---- C15: the ID placeholder is scoped to a single request

type C15Conn struct {
	Reqs     []ReqSc `json:"reqs"`
	Pipeline bool    `json:"pipeline,omitempty"` // send all requests before reading
}

type C15Sc struct {
	Direct bool      `json:"direct"` // concurrent HandleRequest calls on one executor instead of connections through the server
	Conns  []C15Conn `json:"conns"`
	Chunk  int       `json:"chunk,omitempty"`
	// WrapMw: transparent message and batch-item middlewares that hand a wrapped context on are installed
	WrapMw bool `json:"wrap_mw,omitempty"`
	// SplitMw: a message middleware hands the batch items to the rest of the chain one at a time (several
	// continuation calls for one request message) and merges the answers: still one request, one placeholder
	SplitMw bool `json:"split_mw,omitempty"`
	// DetachMw: a batch-item middleware hands the handlers a context that does not descend from the one it received
	// (context.Background() with a deadline, say): no handler can reach the request's placeholder any more, stores
	// through such a context fail, and reads through it see nothing, least of all another request's value
	DetachMw bool `json:"detach_mw,omitempty"`
	// StoreMw: a batch-item middleware stores the placeholder itself, before the rest of the chain (items whose script
	// contains "mb") or after it has returned (items with "ma"), as a middleware that derives the value from the
	// response would: a store made while an item is processed is a store, whoever makes it
	StoreMw bool `json:"store_mw,omitempty"`
}

var c15Actions = []string{"pr", "pw", "pr,pw", "pw,pr", "pc", "pg", "pw,et", "pw,ps", "y2,pr", "pr,y2,pw,y1,pr", "pw,y3,pr", "y1,pg", "pc,pr", "pw,pc,pr", "ok", "et", "pz", "pw,pz,pr", "pz,pr", "px", "pw,px,pr", "nq", "pw,nq,pr", "nq,pr", "pr,nq,pw", "dx,pw", "dx,pr", "dx,pw,pr", "pw,dx,pr", "dx,pg", "dx,pz,pr", "pr,dx,pw", "pu", "pr,pu", "pw,pu", "pu,pr", "ma", "mb,pr", "pr,ma", "mb,pw,ma", "ma,et"}

func genC15(g *simrt.Tape, tier string) any {
	sc := &C15Sc{Direct: g.Draw(3) == 0}
	nc := 1 + g.Draw(4)
	for c := 0; c < nc; c++ {
		var cn C15Conn
		nr := 1 + g.Draw(3)
		for r := 0; r < nr; r++ {
			rs := ReqSc{Version: 4, Option: g.Draw(3), Hdr: genHdr(g), IDs: genIDs(g)}
			// (direct callers) the request's context may be cancelled already, or be cancelled by one of its handlers:
			// the executor goes on with the batch all the same, and so does the placeholder
			rs.Ctx = []int{0, 0, 0, 0, 1, 2}[g.Draw(6)]
			ni := 1 + g.Draw(5)
			for i := 0; i < ni; i++ {
				it := ItemSc{Tok: c15Actions[g.Draw(len(c15Actions))]}
				// optional elements of a batch item that must not change what the placeholder does
				switch g.Draw(6) {
				case 0:
					it.Ext = "plain"
				case 1:
					it.NoID = true
				}
				// the operation of the item: the placeholder does not care which
				if g.Draw(3) == 0 {
					it.Op = []string{"destroy", "archive", "recover", "revoke"}[g.Draw(4)]
				}
				rs.Items = append(rs.Items, it)
			}
			if rs.Ctx == 2 {
				k := g.Draw(len(rs.Items))
				rs.Items[k].Tok = "cc," + rs.Items[k].Tok
			}
			cn.Reqs = append(cn.Reqs, rs)
		}
		cn.Pipeline = g.Draw(3) == 0
		sc.Conns = append(sc.Conns, cn)
	}
	sc.Chunk = []int{simnet.ChunkMax, simnet.ChunkRandom}[g.Draw(2)]
	sc.WrapMw = g.Draw(3) == 0
	sc.SplitMw = g.Draw(4) == 0
	sc.DetachMw = g.Draw(8) == 0
	sc.StoreMw = !sc.DetachMw && g.Draw(3) == 0
	return sc
}

func decodeC15(raw json.RawMessage) (any, error) {
	sc := &C15Sc{}
	return sc, json.Unmarshal(raw, sc)
}

// requestOf extracts "k<conn>.r<n>" from an id "k<conn>.r<n>.<item>".
func requestOf(id string) string {
	if i := strings.LastIndexByte(id, '.'); i > 0 {
		return id[:i]
	}
	return id
}

func connOf(id string) string {
	if i := strings.IndexByte(id, '.'); i > 0 {
		return id[:i]
	}
	return id
}

// checkPlaceholder replays the handler trace against the per-request reference cell.
func checkPlaceholder(x *X, trace []hEvent, order map[string]int) {
	type cell struct {
		vals map[string]bool // acceptable current values
	}
	cells := map[string]*cell{}
	get := func(req string) *cell {
		c := cells[req]
		if c == nil {
			c = &cell{vals: map[string]bool{"": true}}
			cells[req] = c
		}
		return c
	}
	describe := func(c *cell) string {
		var vs []string
		for v := range c.vals {
			vs = append(vs, fmt.Sprintf("%q", v))
		}
		return strings.Join(vs, " or ")
	}
	for _, ev := range trace {
		req := requestOf(ev.ID)
		c := get(req)
		switch ev.Kind {
		case "set":
			c.vals = map[string]bool{ev.Value: true}
			if ev.Err {
				c.vals[""] = true
			}
		case "clear":
			c.vals = map[string]bool{"": true}
		case "read", "get":
			val := ev.Value
			if ev.Kind == "get" && ev.Err {
				val = ""
			}
			if !c.vals[val] {
				// whose value is it?
				sig := "wrong-value"
				if strings.HasPrefix(val, "ph-") {
					owner := strings.TrimPrefix(val, "ph-")
					if i := strings.LastIndexByte(owner, '-'); i > 0 {
						owner = owner[:i]
					}
					oreq := requestOf(owner)
					switch {
					case oreq == req:
						sig = "stale-value-of-same-request"
					case connOf(oreq) == connOf(req):
						sig = "value-of-another-request-same-connection"
					default:
						sig = "value-of-another-connection"
					}
				} else if val == "" {
					sig = "value-lost"
				}
				x.Reportf("C15.foreign-placeholder", sig, "item %s observed placeholder %q, the reference cell of request %s holds %s", ev.ID, val, req, describe(c))
				return
			}
			c.vals = map[string]bool{val: true}
		case "dread":
			if ev.Value != "" {
				sig := "detached-context-sees-a-value"
				x.Reportf("C15.foreign-placeholder", sig, "item %s read the placeholder through a context that belongs to no request and observed %q", ev.ID, ev.Value)
				return
			}
		case "getx":
			// resolving an explicit id is not a store: what it returns is not judged here, only that later reads
			// still see the last stored value (the cell is left alone)
		case "end":
			// after a failed item the statement does not say whether the value survives: both accepted
			if ev.Err || itemFails(ItemSc{Tok: strings.Join(tokenActions(ev.Token), ",")}) {
				c.vals[""] = true
			}
		}
	}
}

func execC15(x *X, scAny any) {
	sc := scAny.(*C15Sc)
	s := x.S
	w := newServerWorld(x)
	if sc.WrapMw {
		type k1 struct{}
		type k2 struct{}
		w.exec.Use(func(next kmipserver.Next, ctx context.Context, msg *kmip.RequestMessage) (*kmip.ResponseMessage, error) {
			return next(context.WithValue(ctx, k1{}, "msg-mw"), msg)
		})
		w.exec.BatchItemUse(func(next kmipserver.BatchItemNext, ctx context.Context, bi *kmip.RequestBatchItem) (*kmip.ResponseBatchItem, error) {
			simrt.Yield("item-mw")
			return next(context.WithValue(ctx, k2{}, "item-mw"), bi)
		})
	}
	if sc.DetachMw {
		w.exec.BatchItemUse(func(next kmipserver.BatchItemNext, ctx context.Context, bi *kmip.RequestBatchItem) (*kmip.ResponseBatchItem, error) {
			s.Fault("placeholder-through-detached-context")
			return next(context.WithValue(context.Background(), detachedKey{}, true), bi)
		})
	}
	if sc.StoreMw {
		w.exec.BatchItemUse(func(next kmipserver.BatchItemNext, ctx context.Context, bi *kmip.RequestBatchItem) (*kmip.ResponseBatchItem, error) {
			tok := itemToken(bi)
			id := tokenID(tok)
			store := func(itemFailed bool) {
				w.setCount++
				v := fmt.Sprintf("ph-%s-%d", id, w.setCount)
				s.Fault("placeholder-stored-by-middleware")
				kmipserver.SetIdPlaceholder(ctx, v)
				// (a store on behalf of an item that failed: the statement does not say whether a failed item's
				// value survives, see the "end" rule)
				w.record(hEvent{Token: tok, ID: id, Kind: "set", Value: v, Err: itemFailed})
			}
			acts := tokenActions(tok)
			for _, a := range acts {
				if a == "mb" {
					store(false)
				}
			}
			r, err := next(ctx, bi)
			for _, a := range acts {
				if a == "ma" {
					store(err != nil || r == nil || r.ResultStatus != kmip.ResultStatusSuccess)
				}
			}
			return r, err
		})
	}
	if sc.SplitMw {
		w.exec.Use(func(next kmipserver.Next, ctx context.Context, msg *kmip.RequestMessage) (*kmip.ResponseMessage, error) {
			if len(msg.BatchItem) < 2 {
				return next(ctx, msg)
			}
			var merged *kmip.ResponseMessage
			for i := range msg.BatchItem {
				part := *msg
				part.BatchItem = msg.BatchItem[i : i+1]
				part.Header.BatchCount = 1
				r, err := next(ctx, &part)
				if err != nil || r == nil {
					return r, err
				}
				if merged == nil {
					cp := *r
					cp.BatchItem = nil
					merged = &cp
				}
				merged.BatchItem = append(merged.BatchItem, r.BatchItem...)
			}
			merged.Header.BatchCount = int32(len(merged.BatchItem))
			return merged, nil
		})
	}
	done := 0
	total := len(sc.Conns)
	if sc.Direct {
		for ci := range sc.Conns {
			ci := ci
			s.Spawn(fmt.Sprintf("conn%d", ci), func() {
				defer func() { done++ }()
				for ri := range sc.Conns[ci].Reqs {
					prefix := fmt.Sprintf("k%d.r%d", ci, ri)
					_ = w.exec.HandleRequest(w.requestContext(&sc.Conns[ci].Reqs[ri], prefix), buildRequest(&sc.Conns[ci].Reqs[ri], prefix))
					s.YieldNow("between-requests")
				}
			})
		}
	} else {
		w.startServer(func(string) simnet.EP { return simnet.EP{Chunk: sc.Chunk} }, 0)
		for ci := range sc.Conns {
			ci := ci
			s.Spawn(fmt.Sprintf("client%d", ci), func() {
				defer func() { done++ }()
				conn, err := w.ln.Dial(fmt.Sprintf("k%d", ci), simnet.EP{Chunk: sc.Chunk})
				if err != nil {
					return
				}
				st := ttlv.NewStream(conn, 0)
				cn := &sc.Conns[ci]
				owed := 0
				for ri := range cn.Reqs {
					if err := st.Send(buildRequest(&cn.Reqs[ri], fmt.Sprintf("k%d.r%d", ci, ri))); err != nil {
						break
					}
					owed++
					if !cn.Pipeline {
						var resp kmip.ResponseMessage
						if err := st.Recv(&resp); err != nil {
							break
						}
						owed--
					}
				}
				for ; owed > 0; owed-- {
					var resp kmip.ResponseMessage
					if err := st.Recv(&resp); err != nil {
						break
					}
				}
				_ = conn.Close()
			})
		}
		s.Spawn("shutdown", func() {
			s.WaitUntil("clients-done", func() bool { return done == total })
			w.shutdown()
		})
	}
	s.Run()
	x.CommonOracles("C15")
	if len(s.Result().Panics) > 0 {
		return
	}
	if done != total {
		x.Reportf("C15.hang", "client", "%d of %d connections have not finished at quiescence", total-done, total)
		return
	}
	checkPlaceholder(x, w.trace, nil)
}

func c15Floor(tier string) []*C15Sc {
	// two connections, the first stores a value, the second only reads: every pairing of short scripts
	scripts := []string{"pw", "pw,y2,pr", "pw,et", "pc", "pr", "y1,pr", "pg"}
	var out []*C15Sc
	for _, a := range scripts {
		for _, b := range scripts {
			for _, direct := range []bool{true, false} {
				out = append(out, &C15Sc{Direct: direct, Conns: []C15Conn{
					{Reqs: []ReqSc{{Version: 4, Items: []ItemSc{{Tok: a}, {Tok: "pr"}}}, {Version: 4, Items: []ItemSc{{Tok: "pr"}, {Tok: b}}}}},
					{Reqs: []ReqSc{{Version: 4, Items: []ItemSc{{Tok: "y1,pr"}, {Tok: b}, {Tok: "pr"}}}}},
				}})
			}
		}
	}
	// optional item elements (non-critical message extension, no batch item id) on the storing, clearing and reading item
	for mask := 0; mask < 64; mask++ {
		for _, noid := range []bool{false, true} {
			items := []ItemSc{{Tok: "pw"}, {Tok: "pr,nq,pr"}, {Tok: "pc"}, {Tok: "pr,pw,pr"}, {Tok: "pz"}, {Tok: "pr,px,pr"}}
			for i := range items {
				if mask&(1<<i) != 0 {
					items[i].Ext = "plain"
				}
				items[i].NoID = noid
			}
			for _, direct := range []bool{true, false} {
				out = append(out, &C15Sc{Direct: direct, Conns: []C15Conn{{Reqs: []ReqSc{{Version: 4, Items: append(items, ItemSc{Tok: "pr"})}, {Version: 4, Items: []ItemSc{{Tok: "pr"}}}}}}})
			}
			if mask%8 == 0 {
				out = append(out, &C15Sc{Direct: true, SplitMw: true, WrapMw: noid, Conns: []C15Conn{{Reqs: []ReqSc{{Version: 4, Items: append(items, ItemSc{Tok: "pr"})}, {Version: 4, Items: []ItemSc{{Tok: "pr"}}}}}}})
			}
		}
	}
	// the request context cancelled before the request, or by the handler of each item in turn
	for k := -1; k < 4; k++ {
		items := []ItemSc{{Tok: "pw"}, {Tok: "pr"}, {Tok: "pw,pr"}, {Tok: "pr"}}
		rs := ReqSc{Version: 4, Ctx: 1, Items: items}
		if k >= 0 {
			rs.Ctx = 2
			items[k].Tok = "cc," + items[k].Tok
		}
		out = append(out, &C15Sc{Direct: true, Conns: []C15Conn{{Reqs: []ReqSc{rs, {Version: 4, Items: []ItemSc{{Tok: "pr"}}}}}}})
	}
	// placeholder accessors called through a context that belongs to no request, by the handler or because a batch-item
	// middleware swapped the context: a store in one request, reads in a later one and on another connection
	for _, direct := range []bool{true, false} {
		for _, wr := range []string{"dx,pw", "pw,dx,pw", "dx,pw,pr", "dx,pz,pw"} {
			for _, rd := range []string{"dx,pr", "dx,pg", "pr,dx,pr"} {
				out = append(out, &C15Sc{Direct: direct, Conns: []C15Conn{
					{Reqs: []ReqSc{{Version: 4, Option: 1, Items: []ItemSc{{Tok: wr}, {Tok: rd}}}, {Version: 4, Items: []ItemSc{{Tok: rd}, {Tok: "pw"}, {Tok: rd}}}}},
					{Reqs: []ReqSc{{Version: 4, Items: []ItemSc{{Tok: "y2," + rd}, {Tok: rd}}}}},
				}})
			}
		}
		for _, wr := range []string{"pw", "pw,pr", "pz,pw"} {
			out = append(out, &C15Sc{Direct: direct, DetachMw: true, Conns: []C15Conn{
				{Reqs: []ReqSc{{Version: 4, Option: 1, Items: []ItemSc{{Tok: wr}, {Tok: "pr"}}}, {Version: 4, Items: []ItemSc{{Tok: "pr"}, {Tok: "pg"}}}}},
				{Reqs: []ReqSc{{Version: 4, Items: []ItemSc{{Tok: "y2,pr"}, {Tok: "pg"}}}}},
			}})
		}
	}
	// a batch-item middleware that stores the placeholder before or after the rest of the chain, readers behind it
	for _, direct := range []bool{true, false} {
		for _, first := range []string{"ma", "mb", "mb,pr", "pw,ma", "ma,et", "mb,ps"} {
			out = append(out, &C15Sc{Direct: direct, StoreMw: true, Conns: []C15Conn{
				{Reqs: []ReqSc{{Version: 4, Option: 1, Items: []ItemSc{{Tok: first}, {Tok: "pr"}, {Tok: "pg"}, {Tok: "pr,ma"}, {Tok: "pr"}}}, {Version: 4, Items: []ItemSc{{Tok: "pr"}, {Tok: "mb,pr"}}}}},
				{Reqs: []ReqSc{{Version: 4, Items: []ItemSc{{Tok: "y1,pr"}, {Tok: "pr"}}}}},
			}})
		}
	}
	// a value stored by one item, then an item of every routed operation that resolves its object through the
	// placeholder and names it in its response, then readers
	for _, op := range []string{"", "destroy", "archive", "recover", "revoke"} {
		for _, direct := range []bool{true, false} {
			for _, mid := range []string{"pu", "pr,pu", "pg,pu"} {
				out = append(out, &C15Sc{Direct: direct, Conns: []C15Conn{{Reqs: []ReqSc{
					{Version: 4, Items: []ItemSc{{Tok: "pw", Op: op}, {Tok: mid, Op: op}, {Tok: "pr"}, {Tok: "pg", Op: op}, {Tok: mid, Op: op}, {Tok: "pr", Op: op}}},
					{Version: 4, Items: []ItemSc{{Tok: "pr", Op: op}}}}}}})
			}
		}
	}
	// every combination of optional header elements around "store, read, store, read" on one connection
	for _, h := range allHdrs() {
		for _, direct := range []bool{true, false} {
			out = append(out, &C15Sc{Direct: direct, Conns: []C15Conn{
				{Reqs: []ReqSc{{Version: 4, Hdr: h, Items: []ItemSc{{Tok: "pw"}, {Tok: "pr"}, {Tok: "pw,pr"}, {Tok: "pg"}}}, {Version: 4, Hdr: h, Items: []ItemSc{{Tok: "pr"}}}}},
			}})
		}
	}
	return out
}

func init() {
	register(&Prop{
		ID: "C15", Engine: "server",
		Generate: genC15, Decode: decodeC15, Execute: execC15,
		Config:      func(any) simrt.Config { return simrt.Config{MaxSteps: 60000, IdleProbe: 4 * time.Second} },
		Runs:        clientRuns(150000, 8000000),
		Floors:      []Floor{{Name: "two-connection-scripts", Sweep: false, Count: func(t string) int { return len(c15Floor(t)) }, Scenario: func(t string, i int) any { return c15Floor(t)[i] }}},
		Rule:        "one evaluation = one simulated run of 1-4 connections (or direct concurrent HandleRequest callers) each issuing 1-3 requests of 1-5 items whose scripted handlers read, store (unique value per store), clear or resolve the ID placeholder and yield to the scheduler in between; distinct = distinct event-log hashes among runs with at least one preemption or chunked read",
		Components:  serverComponents,
		Assumptions: []string{"after a failed item the model accepts either the last stored value or the empty placeholder", "rewriter is semantics-preserving"},
	})
}
