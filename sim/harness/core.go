// Package harness contains the scenario generators, executors and oracles of
// the four simulation engines (stream, server, client, codec) and the generic
// run / replay / minimise machinery shared by them.
package harness

import (
	"encoding/json"
	"fmt"
	"github.com/ovh/kmip-go/kmipclient"
	"github.com/ovh/kmip-go/kmipserver"
	"log/slog"
	"os"
	"sort"
	"strings"
	"testing"
	"testing/synctest"
	"time"

	"kmipverif/simrt"
)

// Violation is one oracle failure in one run.
type Violation struct {
	Rule   string `json:"rule"`
	Sig    string `json:"sig"`
	Detail string `json:"detail"`
}

func (v Violation) Key() string { return v.Rule + "|" + v.Sig }

// Strategy is the per-run search strategy (explore mode).
type Strategy struct {
	PreemptP float64 `json:"preempt_p"`
	HotP     float64 `json:"hot_p"`
}

// RunInput fully determines one simulated run.
type RunInput struct {
	Property string          `json:"property"`
	Mode     string          `json:"mode"` // "explore", "replay" or a floor name
	Scenario json.RawMessage `json:"scenario,omitempty"`
	GenTape  []int           `json:"gen_tape,omitempty"`
	GenSeed  uint64          `json:"gen_seed,omitempty"`
	RunTape  []int           `json:"run_tape,omitempty"`
	RunSeed  uint64          `json:"run_seed,omitempty"`
	Preempt  []int64         `json:"preempt,omitempty"`
	Strategy Strategy        `json:"strategy"`
	Replay   bool            `json:"replay"`   // RunTape/Preempt are used instead of the PRNG
	FromGen  bool            `json:"from_gen"` // scenario is (re)generated from GenTape/GenSeed
	Tier     string          `json:"tier,omitempty"`
	Trace    bool            `json:"-"`
	// single-preemption sweep
	SinglePre  int64 `json:"single_pre,omitempty"`
	SingleTask int   `json:"single_task,omitempty"`
}

// RunOutput is what one run produced.
type RunOutput struct {
	Scenario   json.RawMessage
	GenTape    []int
	RunTape    []int
	Preempt    []int64
	Violations []Violation
	EventHash  uint64
	Events     []string
	Faults     map[string]int
	Probes     map[string]int
	Pairs      map[uint64]struct{}
	Capped     bool
	Livelock   string
	Foreign    []string
	Nontrivial bool
	SimTime    time.Duration
	Yields     int64
	Steps      int
	Tasks      int
}

// X is the execution context handed to an engine inside the bubble.
type X struct {
	S    *simrt.Sim
	T    *testing.T
	Tier string
	out  *RunOutput
	seen map[string]bool
}

// Report records a violation (de-duplicated per run by rule+sig).
func (x *X) Report(rule, sig, detail string) {
	k := rule + "|" + sig
	if x.seen[k] {
		return
	}
	x.seen[k] = true
	if len(detail) > 600 {
		detail = detail[:600] + "…"
	}
	x.out.Violations = append(x.out.Violations, Violation{Rule: rule, Sig: sig, Detail: detail})
}

func (x *X) Reportf(rule, sig, format string, a ...any) {
	x.Report(rule, sig, fmt.Sprintf(format, a...))
}

// CommonOracles applies the oracles of DESIGN §2.6 that every engine shares:
// panics in any task, and trouble of the simulation itself.
func (x *X) CommonOracles(prop string) {
	res := x.S.Result()
	for _, p := range res.Panics {
		x.Report(prop+".panic", simrt.PanicSig(p), p.Role+": "+p.Value+"\n"+trimStack(p.Stack))
	}
}

func trimStack(st string) string {
	var out []string
	for _, ln := range strings.Split(st, "\n") {
		if strings.Contains(ln, "kmip-go") || strings.Contains(ln, "kmipverif/harness") {
			out = append(out, strings.TrimSpace(ln))
		}
		if len(out) >= 12 {
			break
		}
	}
	return strings.Join(out, "\n")
}

// Floor is a bounded enumeration inside the simulator.
type Floor struct {
	Name string
	// Count returns how many scenarios the floor has for the tier.
	Count func(tier string) int
	// Scenario returns the i-th scenario.
	Scenario func(tier string, i int) any
	// Sweep: if set, every scenario is additionally run under every
	// single-preemption schedule (DESIGN §2.3).
	Sweep bool
}

// Prop binds a property id to its engine.
type Prop struct {
	ID       string
	Engine   string
	Generate func(g *simrt.Tape, tier string) any
	Decode   func(raw json.RawMessage) (any, error)
	Config   func(sc any) simrt.Config
	Execute  func(x *X, sc any)
	Floors   []Floor
	// Runs returns the number of explore runs for a tier.
	Runs func(tier string) int
	// Describe renders a scenario for the evidence samples.
	Components  map[string][]string
	Rule        string
	Assumptions []string
}

var Props = map[string]*Prop{}

func register(p *Prop) { Props[p.ID] = p }

func PropIDs() []string {
	var ids []string
	for id := range Props {
		ids = append(ids, id)
	}
	sort.Strings(ids)
	return ids
}

func init() { slog.SetDefault(slog.New(slog.DiscardHandler)) }

var strategies = []Strategy{{0, 0}, {0.01, 0}, {0.05, 0}, {0.2, 0}, {0.02, 0.3}, {0, 0.5}, {0.05, 0.2}}

// StrategyFor derives the per-run strategy from the run seed.
func StrategyFor(runSeed uint64) Strategy {
	return strategies[simrt.Mix(runSeed, 77)%uint64(len(strategies))]
}

// RunOne executes one simulated run in a fresh bubble.
// crumbPath: when set, the input of every run is written there before the run starts, so that the driver can
// tell which run killed the process when library code dies of a fatal error (out of memory, stack overflow) that
// no recover() can catch.
var crumbPath = os.Getenv("KMIPVERIF_CRUMB")

func RunOne(t *testing.T, p *Prop, in RunInput) (out RunOutput) {
	if crumbPath != "" {
		if b, err := json.Marshal(ReplayFile{Property: p.ID, Input: in}); err == nil {
			_ = os.WriteFile(crumbPath, b, 0o644)
		}
	}
	var sc any
	var gen *simrt.Tape
	if in.FromGen || in.Scenario == nil {
		if in.GenTape != nil || in.Replay {
			gen = simrt.ReplayTape(in.GenTape)
		} else {
			gen = simrt.NewTape(in.GenSeed)
		}
		sc = p.Generate(gen, in.Tier)
		out.GenTape = gen.Recorded()
	} else {
		var err error
		sc, err = p.Decode(in.Scenario)
		if err != nil {
			panic(fmt.Sprintf("harness: cannot decode scenario: %v", err))
		}
	}
	raw, err := json.Marshal(sc)
	if err != nil {
		panic(err)
	}
	out.Scenario = raw

	var tape *simrt.Tape
	if in.Replay {
		tape = simrt.ReplayTape(in.RunTape)
	} else {
		tape = simrt.NewTape(in.RunSeed)
	}
	cfg := simrt.Config{}
	if p.Config != nil {
		cfg = p.Config(sc)
	}
	cfg.PreemptP, cfg.HotP = in.Strategy.PreemptP, in.Strategy.HotP
	cfg.Preempt = in.Preempt
	cfg.PreSeed = simrt.Mix(in.RunSeed, 99)
	cfg.Trace = in.Trace
	cfg.SinglePre, cfg.SingleTask = in.SinglePre, in.SingleTask

	func() {
		defer func() {
			if r := recover(); r != nil {
				if !strings.Contains(fmt.Sprint(r), "deadlock: main bubble goroutine has exited") {
					panic(r)
				}
			}
		}()
		synctest.Test(t, func(t *testing.T) {
			// every run starts from a cold client and server package: whatever a run leaves in a package-level cache,
			// table or sync.Once of kmipclient / kmipserver is gone (generated into the overlay, see instrument)
			kmipclient.VerifResetCaches()
			kmipserver.VerifResetCaches()
			s := simrt.New(cfg, tape)
			defer s.Close()
			x := &X{S: s, T: t, Tier: in.Tier, out: &out, seen: map[string]bool{}}
			p.Execute(x, sc)
			out.EventHash = s.EventHash()
			out.Events = s.Events
			out.Faults = s.Faults
			out.Probes = s.Probes
			out.Pairs = s.Pairs
			out.Capped = s.Capped
			if s.Capped && len(s.Foreign) == 0 {
				// bounded liveness: a finite scripted workload did not come to rest within the step budget (200 000
				// hand-offs or 2 000 000 executed statements; the largest run on the unchanged tree needs about 10^4).
				// The only verdict of such a run is that fact: every other oracle presupposes a run that ended.
				out.Livelock = s.Livelock
				sig := "scheduling-steps"
				if s.Livelock != "" {
					sig = "busy in " + s.Livelock
				}
				out.Capped = false
				out.Violations = nil
				x.seen = map[string]bool{}
				capSteps, capYields := s.Caps()
				x.Reportf(p.ID+".no-quiescence", sig, "the run did not come to rest: %d hand-offs, %d statements executed (caps %d / %d; the largest run on the unchanged tree needs about 10^4 statements)", s.Steps, s.Yields(), capSteps, capYields)
			}
			out.Foreign = s.Foreign
			out.Preempt = s.PreemptRec
			out.SimTime = s.Now()
			out.Yields = s.Yields()
			out.Steps = s.Steps
			out.Tasks = s.NumTasks()
			nf := 0
			for _, n := range s.Faults {
				nf += n
			}
			out.Nontrivial = nf > 0 || len(s.PreemptRec) > 0
		})
	}()
	out.RunTape = tape.Recorded()
	return out
}

func hasKey(vs []Violation, key string) bool {
	for _, v := range vs {
		if v.Key() == key {
			return true
		}
	}
	return false
}

// Replay file as written to disk.
type ReplayFile struct {
	Property string   `json:"property"`
	Input    RunInput `json:"input"`
	Expect   Expect   `json:"expect"`
	Seed     uint64   `json:"verif_seed"`
	Run      int      `json:"run"`
	Detail   string   `json:"detail"`
	Events   []string `json:"events,omitempty"`
	MinStats MinStats `json:"minimise"`
}

type Expect struct {
	Rule      string `json:"rule"`
	Sig       string `json:"sig"`
	EventHash string `json:"event_hash"`
}

type MinStats struct {
	Candidates int `json:"candidates"`
	GenBefore  int `json:"gen_before"`
	GenAfter   int `json:"gen_after"`
	RunBefore  int `json:"run_before"`
	RunAfter   int `json:"run_after"`
	PreBefore  int `json:"preempt_before"`
	PreAfter   int `json:"preempt_after"`
}

// Minimise shrinks a failing run (ddmin over preemptions, run tape, gen tape)
// while the same rule+sig keeps firing. The input must be in replay form.
func Minimise(t *testing.T, p *Prop, in RunInput, key string, budget int) (RunInput, MinStats) {
	st := MinStats{GenBefore: len(in.GenTape), RunBefore: len(in.RunTape), PreBefore: len(in.Preempt)}
	// wall-clock bound: on a tree where every candidate run spins to a cap, minimisation must not starve the
	// worker (the result is then less minimal, never wrong: every accepted candidate reproduced the violation)
	t0 := time.Now()
	try := func(c RunInput) bool {
		if st.Candidates >= budget || time.Since(t0) > 40*time.Second {
			return false
		}
		st.Candidates++
		o := RunOne(t, p, c)
		return hasKey(o.Violations, key) && !o.Capped && len(o.Foreign) == 0
	}
	best := in
	if best.SinglePre > 0 {
		c := best
		c.SinglePre, c.SingleTask = 0, 0
		if try(c) {
			best = c
		}
	}
	// 1. preemptions: none at all, then drop chunks
	if len(best.Preempt) > 0 {
		c := best
		c.Preempt = nil
		if try(c) {
			best = c
		}
	}
	for chunk := (len(best.Preempt) + 1) / 2; chunk >= 1 && len(best.Preempt) > 0; chunk /= 2 {
		for i := 0; i < len(best.Preempt); {
			c := best
			c.Preempt = append(append([]int64{}, best.Preempt[:i]...), best.Preempt[min(i+chunk, len(best.Preempt)):]...)
			if try(c) {
				best = c
			} else {
				i += chunk
			}
		}
		if chunk == 1 {
			break
		}
	}
	// 2. run tape: truncate (missing entries are zero), then zero blocks
	best.RunTape = shrinkTape(best.RunTape, false, func(tp []int) bool { c := best; c.RunTape = tp; return try(c) })
	// 3. generator tape: delete blocks, zero, lower
	if best.FromGen {
		best.GenTape = shrinkTape(best.GenTape, true, func(tp []int) bool { c := best; c.GenTape = tp; return try(c) })
		// the scenario changed: the run tape may shrink further
		best.RunTape = shrinkTape(best.RunTape, false, func(tp []int) bool { c := best; c.RunTape = tp; return try(c) })
	}
	st.GenAfter, st.RunAfter, st.PreAfter = len(best.GenTape), len(best.RunTape), len(best.Preempt)
	return best, st
}

func trimZeros(tp []int) []int {
	n := len(tp)
	for n > 0 && tp[n-1] == 0 {
		n--
	}
	return tp[:n]
}

func shrinkTape(tp []int, del bool, ok func([]int) bool) []int {
	tp = trimZeros(append([]int{}, tp...))
	if len(tp) == 0 {
		return tp
	}
	if ok(nil) {
		return nil
	}
	// truncate
	for n := len(tp) / 2; n >= 1; n /= 2 {
		if len(tp) > n {
			c := trimZeros(append([]int{}, tp[:len(tp)-n]...))
			if ok(c) {
				tp = c
			}
		}
	}
	// delete blocks (generator tapes: removes whole generated items)
	if del {
		for chunk := 8; chunk >= 1; chunk /= 2 {
			for i := 0; i+chunk <= len(tp); {
				c := append(append([]int{}, tp[:i]...), tp[i+chunk:]...)
				if ok(trimZeros(c)) {
					tp = trimZeros(c)
				} else {
					i++
				}
				if len(tp) > 400 { // keep the cost bounded on very long tapes
					i += chunk
				}
			}
		}
	}
	// zero blocks
	for chunk := 16; chunk >= 1; chunk /= 4 {
		for i := 0; i < len(tp); i += chunk {
			allZero := true
			for j := i; j < min(i+chunk, len(tp)); j++ {
				if tp[j] != 0 {
					allZero = false
				}
			}
			if allZero {
				continue
			}
			c := append([]int{}, tp...)
			for j := i; j < min(i+chunk, len(c)); j++ {
				c[j] = 0
			}
			c = trimZeros(c)
			if ok(c) {
				tp = c
			}
		}
	}
	// lower values
	for i := 0; i < len(tp); i++ {
		for tp[i] > 1 {
			c := append([]int{}, tp...)
			c[i] = tp[i] / 2
			if !ok(c) {
				break
			}
			tp = c
		}
	}
	return trimZeros(tp)
}
