package harness

import (
	"bytes"
	"encoding/binary"
	"encoding/hex"
	"encoding/json"
	"fmt"
	"strings"
	"sync"

	"kmipverif/simnet"
	"kmipverif/simrt"

	"github.com/ovh/kmip-go/ttlv"
)

// ---- C07: stream framing is independent of how the transport chunks bytes

type Oversize struct {
	Announce uint32 `json:"announce"` // value length field of the header
	Tail     int    `json:"tail"`     // junk bytes available after the header
}

type StreamSc struct {
	Max      int       `json:"max"`
	Frames   []string  `json:"frames"` // hex, complete canonical TTLV items
	Live     bool      `json:"live"`   // a sender task writes with the real Stream.Send while the receiver reads
	Chunk    int       `json:"chunk"`
	DataEOF  bool      `json:"data_eof"`
	Truncate int       `json:"truncate"` // -1: whole stream; else number of bytes delivered before end of stream
	Oversize *Oversize `json:"oversize,omitempty"`
	Capacity int       `json:"capacity,omitempty"`
	// Twin: a second, independent stream of the same process carries the decodable frames in reverse order to a
	// receiver of its own at the same time (streams share nothing)
	Twin bool `json:"twin,omitempty"`
	// Duplex: while the receiver is at work another task sends messages of its own on the very same Stream (the way
	// the library's connections use one: a read loop and a write loop). What is sent must not touch what is received
	Duplex bool `json:"duplex,omitempty"`
}

func genStreamSc(g *simrt.Tape, tier string) any {
	sc := &StreamSc{Truncate: -1}
	sc.Max = []int{0, -1, 1 << 20, 1024, 64, 4096}[g.Draw(6)]
	n := 1 + g.Draw(6)
	small := sc.Max > 0 && sc.Max <= 4096
	for i := 0; i < n; i++ {
		f := genFrame(g, small || g.Draw(3) > 0)
		if g.Draw(8) == 0 {
			f = spoil(f)
		}
		sc.Frames = append(sc.Frames, hex.EncodeToString(f))
	}
	sc.Twin = g.Draw(4) == 0
	sc.Duplex = g.Draw(4) == 0
	sc.Chunk = []int{simnet.ChunkRandom, simnet.ChunkRandom, simnet.ChunkByte, simnet.ChunkMax}[g.Draw(4)]
	sc.DataEOF = g.Draw(3) == 1
	switch g.Draw(4) {
	case 1:
		total := 0
		for _, f := range sc.Frames {
			total += len(f) / 2
		}
		sc.Truncate = g.Draw(total + 1)
	case 2:
		sc.Live = true
		sc.Capacity = []int{0, 64, 1024}[g.Draw(3)]
	case 3:
		if sc.Max > 0 {
			ov := &Oversize{Tail: g.Draw(64)}
			switch g.Draw(6) {
			case 0:
				ov.Announce = uint32(sc.Max + 1 + g.Draw(16))
			case 4:
				// the largest lengths a header can announce, aligned or not (a tree that allocates them dies of an
				// out-of-memory fatal error, which is reported as <id>.process-killed)
				ov.Announce = []uint32{0xFFFFFFFF, 0xFFFFFFF9, 0xFFFFFFF8, 0xFFFFFFF0, 0x80000000, 0x7FFFFFFF}[g.Draw(6)]
			case 1, 5:
				ov.Announce = 0x00800000 // 8 MiB: far above every limit used, yet harmless if a broken implementation allocates it
			case 2:
				ov.Announce = uint32(sc.Max) * 2
			default:
				ov.Announce = uint32(sc.Max + 1)
			}
			sc.Oversize = ov
		}
	}
	return sc
}

func decodeStreamSc(raw json.RawMessage) (any, error) {
	sc := &StreamSc{}
	return sc, json.Unmarshal(raw, sc)
}

type recvRec struct {
	err       error
	val       ttlv.Value
	bytesRead int
}

func execStream(x *X, scAny any) {
	sc := scAny.(*StreamSc)
	s := x.S
	var frames [][]byte
	for _, h := range sc.Frames {
		b, err := hex.DecodeString(h)
		if err != nil {
			panic(err)
		}
		frames = append(frames, b)
	}
	var stream []byte
	var ends []int
	for _, f := range frames {
		stream = append(stream, f...)
		ends = append(ends, len(stream))
	}
	framesLen := len(stream)
	if sc.Oversize != nil {
		hdr := []byte{0x42, 0x00, 0x78, 0x01, 0, 0, 0, 0}
		binary.BigEndian.PutUint32(hdr[4:], sc.Oversize.Announce)
		stream = append(stream, hdr...)
		for i := 0; i < sc.Oversize.Tail; i++ {
			stream = append(stream, byte(0xA0+i%7))
		}
	}
	delivered := len(stream)
	if sc.Truncate >= 0 && sc.Truncate < delivered {
		delivered = sc.Truncate
	}

	talkerDone := !(sc.Duplex && sc.Live)
	a, b := simnet.Pipe(s, "st", simnet.EP{Capacity: sc.Capacity, WriteYield: true}, simnet.EP{Chunk: sc.Chunk, DataEOF: sc.DataEOF})
	if sc.Live {
		s.Spawn("sender", func() {
			st := ttlv.NewStream(a, 0)
			for i, f := range frames {
				var v ttlv.Value
				// the decoder may modify its input (two's complement conversion in place): never share the frame
				if err := ttlv.UnmarshalTTLV(bytes.Clone(f), &v); err != nil {
					// a correctly framed item that does not decode cannot go through Send: written as it is
					if _, werr := a.Write(bytes.Clone(f)); werr != nil {
						x.Reportf("C07.send-error", "raw-write", "raw write of message %d failed on a healthy transport: %v", i, werr)
						return
					}
					continue
				}
				if err := st.Send(v); err != nil {
					x.Reportf("C07.send-error", "send", "Send of message %d failed on a healthy transport: %v", i, err)
					return
				}
			}
			s.WaitUntil("talker-done", func() bool { return talkerDone })
			_ = a.Close()
		})
	} else {
		a.Inject(stream[:delivered])
		_ = a.Close()
	}

	// the twin stream
	var twinFrames [][]byte
	var twinRecs []recvRec
	twinDone := !sc.Twin
	var tb *simnet.Conn
	if sc.Twin {
		for i := len(frames) - 1; i >= 0; i-- {
			if !undecodable(frames[i]) && (sc.Max <= 0 || len(frames[i]) <= sc.Max) {
				twinFrames = append(twinFrames, frames[i])
			}
		}
		var ta *simnet.Conn
		ta, tb = simnet.Pipe(s, "tw", simnet.EP{}, simnet.EP{Chunk: sc.Chunk})
		var all []byte
		for _, f := range twinFrames {
			all = append(all, f...)
		}
		ta.Inject(all)
		_ = ta.Close()
		s.Spawn("twin-receiver", func() {
			st := ttlv.NewStream(tb, sc.Max)
			for range twinFrames {
				var v ttlv.Value
				err := st.Recv(&v)
				twinRecs = append(twinRecs, recvRec{err: err, val: v, bytesRead: tb.BytesRead})
				if err != nil {
					break
				}
			}
			twinDone = true
		})
	}
	var recs []recvRec
	rxDone := false
	rst := ttlv.NewStream(b, sc.Max)
	if sc.Duplex && sc.Live {
		// (only while the other side is there: writing to a peer that has closed is a transport fault of its own,
		// after which a real connection may drop what it has not delivered yet; the sender closes once the talker is done)
		s.Spawn("talker", func() {
			defer func() { talkerDone = true }()
			for k := 0; k < 2*len(frames)+2; k++ {
				out := ttlv.Value{Tag: 0x42007B, Value: ttlv.Struct{{Tag: 0x420069, Value: int32(k)}, {Tag: 0x420055, Value: fmt.Sprintf("from the receiving side %d %s", k, strings.Repeat("z", 17*k%90))}}}
				_ = rst.Send(out) // (the other side may be gone already: that is its business)
				s.YieldNow("talker")
			}
		})
	}
	s.Spawn("receiver", func() {
		st := rst
		for i := 0; i < len(frames)+3; i++ {
			var v ttlv.Value
			err := st.Recv(&v)
			recs = append(recs, recvRec{err: err, val: v, bytesRead: b.BytesRead})
			s.Eventf("recv %d err=%v read=%d", i, err != nil, b.BytesRead)
			if err != nil && !(ttlv.IsErrEncoding(err) && i < len(frames) && undecodable(frames[i])) {
				break // (after a completely read message that merely does not decode, the stream is still in step)
			}
		}
		rxDone = true
	})
	s.Run()
	x.CommonOracles("C07")
	if !rxDone {
		if len(s.Result().Panics) == 0 {
			x.Reportf("C07.hang", "receiver", "receiver has not returned at quiescence (%d Recv calls returned)", len(recs))
		}
		return
	}

	// ---- oracle of the twin stream: every frame, intact, exactly its bytes
	if sc.Twin {
		if !twinDone {
			x.Reportf("C07.hang", "twin-receiver", "the receiver of the second stream has not returned at quiescence (%d Recv calls returned)", len(twinRecs))
			return
		}
		off := 0
		for i, f := range twinFrames {
			if i >= len(twinRecs) || twinRecs[i].err != nil {
				var err error
				if i < len(twinRecs) {
					err = twinRecs[i].err
				}
				x.Reportf("C07.message-lost", "second-stream", "second stream: message %d of %d not returned (%v)", i, len(twinFrames), err)
				return
			}
			var ref ttlv.Value
			want := f
			if ttlv.UnmarshalTTLV(bytes.Clone(f), &ref) == nil {
				want = ttlv.MarshalTTLV(ref)
			}
			if got := ttlv.MarshalTTLV(twinRecs[i].val); !bytes.Equal(got, want) {
				x.Reportf("C07.wrong-message", "second-stream", "second stream: message %d differs from what was sent (%d vs %d bytes)", i, len(got), len(want))
				return
			}
			off += len(f)
			if twinRecs[i].bytesRead != off {
				x.Reportf("C07.over-read", "second-stream", "second stream: after message %d the receiver has consumed %d bytes, the message ends at %d", i, twinRecs[i].bytesRead, off)
				return
			}
		}
	}
	// ---- oracle
	limit := func(frameLen int) string { // is a frame of this total length within the configured maximum?
		if sc.Max <= 0 {
			return "ok"
		}
		valueLen := frameLen - 8
		if frameLen <= sc.Max {
			return "ok"
		}
		if valueLen > sc.Max {
			return "reject"
		}
		return "either"
	}
	i := 0
	start := 0
	for ; i < len(frames); i++ {
		if ends[i] > delivered {
			break // incomplete or absent frame: handled below
		}
		lim := limit(len(frames[i]))
		if i >= len(recs) {
			x.Reportf("C07.missing-message", "short", "receiver stopped after %d messages, %d complete messages were delivered", len(recs), i+1)
			return
		}
		r := recs[i]
		if lim == "reject" || (lim == "either" && r.err != nil) {
			if r.err == nil {
				x.Reportf("C07.oversize-accepted", "frame", "message %d of %d bytes accepted with max=%d", i, len(frames[i]), sc.Max)
			} else if r.bytesRead-start > 8 {
				x.Reportf("C07.oversize-buffered", "frame", "message %d (%d bytes, max=%d) rejected only after %d of its bytes were consumed", i, len(frames[i]), sc.Max, r.bytesRead-start)
			}
			return
		}
		if undecodable(frames[i]) {
			// correctly framed, not decodable: an error for this message, exactly its bytes consumed, the stream goes on
			if r.err == nil {
				x.Reportf("C07.wrong-message", "undecodable-accepted", "message %d does not decode on its own, Recv returned it", i)
				return
			}
			if r.bytesRead != ends[i] {
				x.Reportf("C07.under-read", "undecodable", "after the undecodable message %d the receiver has consumed %d bytes, the message ends at %d", i, r.bytesRead, ends[i])
				return
			}
			start = ends[i]
			continue
		}
		if r.err != nil {
			sig := "complete-message"
			if sc.DataEOF && ends[i] == delivered {
				sig = "last-bytes-with-eof"
			}
			x.Reportf("C07.message-lost", sig, "Recv %d returned %v although the complete message (bytes %d..%d of %d delivered) was handed out", i, r.err, start, ends[i], delivered)
			return
		}
		// reference: what the codec itself makes of this frame outside any stream (keeps codec
		// round-trip questions, which are not C07's, out of this oracle)
		var ref ttlv.Value
		want := frames[i]
		if err := ttlv.UnmarshalTTLV(bytes.Clone(frames[i]), &ref); err == nil {
			want = ttlv.MarshalTTLV(ref)
			if !bytes.Equal(want, frames[i]) {
				s.Probe("codec-not-roundtrip")
			}
		}
		if got := ttlv.MarshalTTLV(r.val); !bytes.Equal(got, want) {
			x.Reportf("C07.wrong-message", "content", "message %d differs from what was sent (%d vs %d bytes): got %x want %x", i, len(got), len(frames[i]), got, frames[i])
			return
		}
		if r.bytesRead != ends[i] {
			kind := "over-read"
			if r.bytesRead < ends[i] {
				kind = "under-read"
			}
			x.Reportf("C07."+kind, "offset", "after message %d the receiver has consumed %d bytes, the message ends at %d", i, r.bytesRead, ends[i])
			return
		}
		start = ends[i]
	}
	// i = index of the first frame that was not completely delivered (or len(frames))
	if i >= len(recs) {
		x.Reportf("C07.hang", "no-final-result", "no Recv result for position %d", i)
		return
	}
	r := recs[i]
	if i == len(frames) && sc.Oversize != nil && delivered >= framesLen+8 {
		if r.err == nil {
			x.Reportf("C07.oversize-accepted", "header", "a header announcing %d bytes was accepted with max=%d", sc.Oversize.Announce, sc.Max)
		} else if r.bytesRead-framesLen > 8 {
			x.Reportf("C07.oversize-buffered", "header", "oversized header (announce=%d, max=%d): %d bytes consumed beyond the frames", sc.Oversize.Announce, sc.Max, r.bytesRead-framesLen)
		}
		if b.MaxReadLen > max(sc.Max, 512) {
			x.Reportf("C07.oversize-buffered", "read-size", "transport was asked for %d bytes at once with max=%d", b.MaxReadLen, sc.Max)
		}
		return
	}
	if r.err == nil {
		x.Reportf("C07.message-from-truncated-stream", "partial", "Recv %d returned a message although the stream ended at byte %d (frame spans %d..)", i, delivered, start)
	}
}

// undecodable: a correctly framed item that the codec itself refuses outside any stream.
func undecodable(frame []byte) bool {
	var v ttlv.Value
	return ttlv.UnmarshalTTLV(bytes.Clone(frame), &v) != nil
}

// spoil returns a copy of a frame whose first nested item carries an invalid type byte (framing untouched).
func spoil(frame []byte) []byte {
	f := bytes.Clone(frame)
	if len(f) >= 16 && f[3] == 0x01 {
		f[8+3] = 0x0F
	}
	return f
}

// ---- floor: every truncation offset of small streams under the two extreme segmentations

var streamFloorOnce sync.Map

func streamFloorList(tier string) []*StreamSc {
	if v, ok := streamFloorOnce.Load(tier); ok {
		return v.([]*StreamSc)
	}
	nBase := 12
	if tier == "thorough" {
		nBase = 120
	}
	var out []*StreamSc
	for bi := 0; bi < nBase; bi++ {
		g := simrt.NewTape(simrt.Mix(0xC07F100, uint64(bi)))
		var frames []string
		total := 0
		n := 1 + g.Draw(3)
		for len(frames) < n {
			f := genFrame(g, true)
			if total+len(f) > 256 {
				if len(frames) == 0 {
					continue
				}
				break
			}
			frames = append(frames, hex.EncodeToString(f))
			total += len(f)
		}
		for _, ch := range []int{simnet.ChunkByte, simnet.ChunkMax} {
			for _, de := range []bool{false, true} {
				for t := 0; t <= total; t++ {
					tr := t
					if t == total {
						tr = -1
					}
					out = append(out, &StreamSc{Max: 1 << 20, Frames: frames, Chunk: ch, DataEOF: de, Truncate: tr})
				}
			}
		}
	}
	// header-only messages (announced length 0) at every position among ordinary ones, every chunking and truncation
	empties := [][]byte{
		ttlv.MarshalTTLV(ttlv.Value{Tag: 0x420078, Value: ttlv.Struct{}}),
		ttlv.MarshalTTLV(ttlv.Value{Tag: 0x420079, Value: ""}),
		ttlv.MarshalTTLV(ttlv.Value{Tag: 0x42007A, Value: []byte{}}),
	}
	plain := ttlv.MarshalTTLV(ttlv.Value{Tag: 0x420078, Value: ttlv.Struct{ttlv.Value{Tag: 0x420069, Value: int32(7)}}})
	for _, ann := range []uint32{0xFFFFFFFF, 0xFFFFFFFC, 0xFFFFFFF9, 0xFFFFFFF8, 0xFFFFFFF0, 0x80000000, 0x7FFFFFFF, 0x00100001} {
		for _, ch := range []int{simnet.ChunkByte, simnet.ChunkMax} {
			for _, mx := range []int{64, 1 << 20} {
				out = append(out, &StreamSc{Max: mx, Frames: []string{hex.EncodeToString(plain)}, Chunk: ch, Truncate: -1, Oversize: &Oversize{Announce: ann, Tail: 16}})
			}
		}
	}
	bad := spoil(ttlv.MarshalTTLV(ttlv.Value{Tag: 0x420078, Value: ttlv.Struct{ttlv.Value{Tag: 0x420069, Value: int32(9)}, ttlv.Value{Tag: 0x42006A, Value: "x"}}}))
	for _, e := range append(empties, bad) {
		for _, layout := range [][][]byte{{e}, {e, plain}, {plain, e}, {plain, e, plain}, {e, e}} {
			var frames []string
			total := 0
			for _, f := range layout {
				frames = append(frames, hex.EncodeToString(f))
				total += len(f)
			}
			for _, ch := range []int{simnet.ChunkByte, simnet.ChunkMax} {
				for _, de := range []bool{false, true} {
					for t := 0; t <= total; t++ {
						tr := t
						if t == total {
							tr = -1
						}
						out = append(out, &StreamSc{Max: 1 << 20, Frames: frames, Chunk: ch, DataEOF: de, Truncate: tr})
					}
				}
			}
		}
	}
	streamFloorOnce.Store(tier, out)
	return out
}

func init() {
	register(&Prop{
		ID: "C07", Engine: "stream",
		Generate: genStreamSc, Decode: decodeStreamSc, Execute: execStream,
		Config: func(sc any) simrt.Config {
			// the work of a run is proportional to the bytes on the wire (down to one Read per byte, on both sides):
			// the statement budget of the bounded-liveness oracle scales with it
			total := 0
			if st, ok := sc.(*StreamSc); ok {
				for _, f := range st.Frames {
					total += len(f) / 2
				}
				if st.Oversize != nil {
					total += st.Oversize.Tail + 8
				}
			}
			return simrt.Config{MaxSteps: 400000 + 4*total, MaxYields: 1000000 + 100*int64(total)}
		},
		Runs: func(tier string) int {
			if tier == "thorough" {
				return 12000000
			}
			return 300000
		},
		Floors: []Floor{{
			Name:     "truncation",
			Count:    func(tier string) int { return len(streamFloorList(tier)) },
			Scenario: func(tier string, i int) any { return streamFloorList(tier)[i] },
		}},
		Rule: "one evaluation = one simulated stream (message sequence x read segmentation x end-of-stream placement); distinct = distinct event-log hashes (sequence of scheduling points, Recv results and consumed-byte counts) among runs in which at least one chunked read, data+eof or preemption happened",
		Components: map[string][]string{
			"real": {"ttlv.Stream (Recv, Send, computeNeededBytes)", "ttlv binary encoder/decoder"},
			"stub": {"transport (simnet io.ReadWriteCloser)", "clock (synctest)"},
		},
		Assumptions: []string{"rewriter is semantics-preserving (pass-through run of the repository's tests)", "simnet segmentation/fault list = DESIGN §2.5"},
	})
	_ = fmt.Sprint
}
