package harness

import (
	"fmt"
	"os"
	"strconv"
	"sync"
	"testing"

	"kmipverif/simrt"
)

// TestCodecRace is the auxiliary, NON-simulation step of C20's thorough tier (DESIGN §3 C20): the
// corpus operations run on real goroutines from cold plan caches under the race detector. Its
// schedule is not controlled; a report from it has no replay file.
func TestCodecRace(t *testing.T) {
	if os.Getenv("KMIPVERIF_RACE") == "" {
		t.Skip("only run by `check run C20 --tier thorough`")
	}
	seed, _ := strconv.ParseUint(os.Getenv("KMIPVERIF_RACE_SEED"), 10, 64)
	codecReference()
	for round := 0; round < 40; round++ {
		resetCodecCaches()
		var wg sync.WaitGroup
		var mu sync.Mutex
		var bad []string
		for g := 0; g < 8; g++ {
			wg.Add(1)
			go func(g int) {
				defer wg.Done()
				r := simrt.NewRng(simrt.Mix(seed, uint64(round*100+g)))
				base := r.Intn(len(corpus))
				for i := 0; i < 12; i++ {
					e := (base/8*8 + r.Intn(8)) % len(corpus)
					op := r.Intn(nCodecOps)
					want := codecRef[e][op]
					if want == "" {
						continue
					}
					if got := codecOp(&corpus[e], op, nil); got != want {
						mu.Lock()
						bad = append(bad, fmt.Sprintf("%s of %s: %s", codecOpNames[op], corpus[e].name, diffAt(got, want)))
						mu.Unlock()
					}
				}
			}(g)
		}
		wg.Wait()
		if len(bad) > 0 {
			t.Fatalf("RESULT-DIFFERS under real concurrency: %v", bad[0])
		}
	}
}
