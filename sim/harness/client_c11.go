package harness

import (
	"fmt"
	"strings"
	"time"

	"kmipverif/simnet"
	"kmipverif/simrt"
)

// ---- C11: client survives connection faults at every point of an exchange

var c11Kinds = []string{"eof", "reset", "closed", "epipe", "short-write", "stall"}

func genC11(g *simrt.Tape, tier string) any {
	sc := &ClientSc{Prop: "C11", Enforce: g.Draw(10) < 3, Suffix: 3, FinalClose: true}
	nc := 1 + g.Draw(3)
	for c := 0; c < nc; c++ {
		var cs CallerSc
		n := 1 + g.Draw(4)
		for i := 0; i < n; i++ {
			call := CallSc{Kind: "request"}
			switch g.Draw(12) {
			case 0:
				call.Kind = "batch"
				call.N = 2 + g.Draw(2)
			case 1:
				call.Kind = "close"
			case 2:
				call.Kind = "yield"
				call.N = 1 + g.Draw(6)
			case 3:
				call.Kind = "clone"
			}
			if call.Kind == "request" || call.Kind == "batch" {
				if g.Draw(6) == 0 {
					genCtx(g, &call)
				}
				call.Via = genVia(g)
				call.Bytes = g.Draw(4) == 0
			}
			cs.Calls = append(cs.Calls, call)
		}
		sc.Callers = append(sc.Callers, cs)
	}
	// faults: a few planned ones spread over the first connections
	nconn := 1 + g.Draw(4)
	for i := 0; i < nconn; i++ {
		var c ConnSc
		if i > 0 && g.Draw(8) == 0 {
			c.DialFail = true
			c.DialErr = []string{"", "", "eof", "closed", "timeout"}[g.Draw(5)]
		}
		if g.Draw(3) == 0 {
			c.DialYields = 1 + g.Draw(6)
		}
		if g.Draw(6) == 0 {
			c.DialMs = []int{1, 100, 2000}[g.Draw(3)]
		}
		nf := g.Draw(3)
		for f := 0; f < nf; f++ {
			c.Plan = append(c.Plan, simnet.FaultAt{Op: 1 + g.Draw(12), Kind: c11Kinds[g.Draw(len(c11Kinds))]})
		}
		if g.Draw(5) == 0 {
			c.Rates = map[string]int{c11Kinds[g.Draw(len(c11Kinds))]: 20 + g.Draw(100)}
		}
		sc.Conns = append(sc.Conns, c)
	}
	closes := g.Draw(2) == 1
	nb := 1 + g.Draw(4)
	for i := 0; i < nb; i++ {
		sc.Behav = append(sc.Behav, genBehav(g, closes))
	}
	sc.Chunk = []int{simnet.ChunkMax, simnet.ChunkRandom}[g.Draw(2)]
	sc.DataEOF = g.Draw(3) == 0
	if !sc.Enforce && g.Draw(6) == 0 {
		sc.DiscoverMode = 1 + g.Draw(2)
	}
	sc.Cluster = g.Draw(5) == 0
	sc.DefaultDialer = g.Draw(3) == 0
	sc.DialCtxCancelled = g.Draw(3) == 0
	if g.Draw(12) == 0 {
		// the hang-up server: no planned connection faults besides it, a longer suffix
		sc.HangUpServer, sc.Suffix, sc.Conns, sc.Behav = true, 5, nil, nil
	}
	return sc
}

func execC11(x *X, scAny any) {
	sc := scAny.(*ClientSc)
	w := newClientWorld(x, sc)
	w.start()
	x.S.Run()
	x.CommonOracles("C11")
	res := x.S.Result()
	if len(res.Panics) > 0 {
		w.finish()
		return // a panicking caller leaves calls unreturned: report the panic only
	}
	if w.client == nil {
		// Dial failed: the caller got no client to close, so nothing of it may stay behind
		if alive := x.S.AliveSUT("kmipclient"); len(alive) > 0 && w.dialErr != nil {
			sig, full := aliveSummary(alive)
			x.Reportf("C11.goroutines-left-after-failed-dial", sig, "Dial returned %q, at quiescence %d client goroutine(s) are still alive: %s (dials=%d)", w.dialErr, len(alive), full, w.dials)
		}
		return
	}
	w.allReturnedOracle("C11")
	w.tokenOracle("C11")
	// (e) at most four transmissions per request
	for tok, n := range w.sent {
		if n > 4 {
			x.Reportf("C11.too-many-transmissions", "gt4", "request %s was written %d times", tok, n)
			break
		}
	}
	// (f) calls that start after Close returned fail
	for _, rec := range w.calls {
		if rec.startedAfterClose && rec.returned && rec.err == nil {
			x.Reportf("C11.call-succeeds-after-close", "after-close", "call c%d/%d started after Close had returned and succeeded", rec.caller, rec.idx)
			break
		}
	}
	// (d) recovery in the fault-free suffix
	if !w.closeCalled || !closedBeforeSuffix(w) {
		var sfx []*callRec
		for _, rec := range w.calls {
			if rec.suffix {
				sfx = append(sfx, rec)
			}
		}
		for i, rec := range sfx {
			if i == 0 || !rec.returned {
				continue
			}
			if w.sc.HangUpServer {
				// the server hangs up after every reply: a call may find the connection gone and fail, the one after
				// it uses a fresh connection and is answered
				if rec.err != nil && sfx[i-1].returned && sfx[i-1].err != nil {
					x.Reportf("C11.no-recovery", "consecutive-failures:"+errClass(rec.err), "the server answers every request and hangs up after each reply: suffix calls %d and %d both failed (%v, %v) although each was answered on a fresh connection; dials so far %d", i, i+1, sfx[i-1].err, rec.err, w.dials)
					break
				}
				continue
			}
			if rec.err != nil {
				x.Reportf("C11.no-recovery", errClass(rec.err), "fault-free suffix: call %d of %d still fails with %v (first suffix call err=%v; dials so far %d)", i+1, len(sfx), rec.err, sfx[0].err, w.dials)
				break
			}
		}
	}
	// (h) "at the latest the next call uses a fresh connection and succeeds": one fault costs at most one call.
	// Calls that carry their own cancellation or deadline, and calls started after Close, are not counted.
	budget := 0
	for _, k := range []string{"eof", "reset", "closed", "epipe", "short-write", "dial-fail", "server-close-after-reply", "server-reset-after-reply", "server-partial-reply", "server-close-before-reply", "server-no-reply", "data+eof", "server-undecodable-message"} {
		budget += x.S.Faults[k]
	}
	failed := 0
	var firstTwo []string
	for _, rec := range w.calls {
		if !rec.returned || rec.err == nil || rec.ctxKind != "" {
			continue
		}
		if rec.kind != "clone-request" && (rec.startedAfterClose || (w.closeSeq > 0 && rec.endSeq > w.closeSeq)) {
			continue // Close of this client was called before the call had returned: it may fail for that reason
			// (a clone is not closed by its parent's Close)
		}
		failed++
		if len(firstTwo) < 3 {
			firstTwo = append(firstTwo, fmt.Sprintf("c%d/%d: %v", rec.caller, rec.idx, rec.err))
		}
	}
	if failed > budget {
		x.Reportf("C11.no-recovery", "more-failed-calls-than-faults", "%d call(s) failed although only %d fault(s) were injected: %s", failed, budget, strings.Join(firstTwo, "; "))
	}
	// (g) nothing left behind after Close
	if w.closeReturned {
		if alive := x.S.AliveSUT("kmipclient"); len(alive) > 0 {
			sig, full := aliveSummary(alive)
			x.Reportf("C11.goroutines-left-after-close", sig, "after Close returned and quiescence %d client goroutine(s) are still alive: %s (dials=%d)", len(alive), full, w.dials)
		}
	}
	w.finish()
}

func closedBeforeSuffix(w *clientWorld) bool {
	for _, rec := range w.calls {
		if rec.suffix {
			return rec.startedAfterClose
		}
	}
	return true
}

func errClass(err error) string {
	s := err.Error()
	for _, k := range []string{"connection reset", "broken pipe", "closed pipe", "use of closed", "EOF", "refused", "canceled"} {
		if strings.Contains(s, k) {
			return strings.ReplaceAll(k, " ", "-")
		}
	}
	if len(s) > 40 {
		s = s[:40]
	}
	return s
}

// ---- floor: every single fault position x kind x what the caller does next
var c11Next = [][]CallSc{
	{{Kind: "request"}},
	{{Kind: "close"}},
	{{Kind: "request"}, {Kind: "request"}},
	{{Kind: "close"}, {Kind: "request"}},
	{{Kind: "batch", N: 2}, {Kind: "request"}},
}

func c11Floor(tier string) []*ClientSc {
	var out []*ClientSc
	maxOp := 12
	for _, enforce := range []bool{false, true} {
		for k := 1; k <= maxOp; k++ {
			for _, kind := range c11Kinds {
				for _, next := range c11Next {
					calls := append([]CallSc{{Kind: "request"}}, next...)
					out = append(out, &ClientSc{Prop: "C11", Enforce: enforce, Suffix: 3, FinalClose: true,
						Callers: []CallerSc{{Calls: calls}},
						Conns:   []ConnSc{{Plan: []simnet.FaultAt{{Op: k, Kind: kind}}}}})
				}
			}
		}
		// Dial that must fail (no common version / failed discovery), with a fault during the discovery exchange
		if !enforce {
			for mode := 1; mode <= 2; mode++ {
				for k := 0; k <= 6; k++ {
					for _, kind := range []string{"eof", "closed", "reset"} {
						sc := &ClientSc{Prop: "C11", DiscoverMode: mode, FinalClose: true, Callers: []CallerSc{{Calls: []CallSc{{Kind: "request"}}}}}
						if k > 0 {
							sc.Conns = []ConnSc{{Plan: []simnet.FaultAt{{Op: k, Kind: kind}}}}
						}
						out = append(out, sc)
						cl := *sc
						cl.Cluster = true
						out = append(out, &cl)
					}
				}
				for _, bh := range []ReqBehav{{CloseBefore: true}, {CloseAfter: true}, {Partial: 4}} {
					out = append(out, &ClientSc{Prop: "C11", DiscoverMode: mode, FinalClose: true, Behav: []ReqBehav{bh, {}}, Callers: []CallerSc{{Calls: []CallSc{{Kind: "request"}}}}})
				}
			}
		}
		// the server sends only part of the k-th reply and goes away
		for k := 0; k < 3; k++ {
			for part := 1; part <= 7; part += 2 {
				for _, rst := range []bool{false, true} {
					bh := make([]ReqBehav, 8)
					bh[k] = ReqBehav{Partial: part, ResetAfter: rst}
					out = append(out, &ClientSc{Prop: "C11", Enforce: enforce, Suffix: 3, FinalClose: true, Behav: bh, Chunk: simnet.ChunkRandom,
						Callers: []CallerSc{{Calls: []CallSc{{Kind: "request"}, {Kind: "request"}, {Kind: "batch", N: 2}}}}})
				}
			}
		}
		// the exchange fails (server gone after the k-th reply), and the re-dial inside the same call fails too, with
		// every kind of dial error; the dial after that is healthy
		for k := 0; k < 3; k++ {
			for _, kind := range []string{"", "eof", "closed", "timeout"} {
				for _, two := range []bool{false, true} {
					bh := make([]ReqBehav, 8)
					bh[k] = ReqBehav{CloseAfter: true}
					conns := []ConnSc{{}, {DialFail: true, DialErr: kind}}
					if two {
						conns = append(conns, ConnSc{DialFail: true, DialErr: kind})
					}
					out = append(out, &ClientSc{Prop: "C11", Enforce: enforce, Suffix: 3, FinalClose: true, Behav: bh, Conns: conns,
						Callers: []CallerSc{{Calls: []CallSc{{Kind: "request"}, {Kind: "request"}, {Kind: "batch", N: 2}, {Kind: "request"}}}}})
				}
			}
		}
		// the server closes right after the k-th reply, seen as EOF or as data+EOF
		for k := 0; k < 4; k++ {
			for _, de := range []bool{false, true} {
				for _, rst := range []bool{false, true} {
					for _, next := range c11Next {
						bh := make([]ReqBehav, 8)
						bh[k] = ReqBehav{CloseAfter: !rst, ResetAfter: rst}
						calls := append([]CallSc{{Kind: "request"}}, next...)
						out = append(out, &ClientSc{Prop: "C11", Enforce: enforce, Suffix: 3, FinalClose: true, DataEOF: de, Behav: bh,
							Callers: []CallerSc{{Calls: calls}}})
						if !de {
							// the same through the library's default dialer and the cluster entry point, with the
							// context of the Dial cancelled once Dial has returned
							for v := 1; v < 8; v++ {
								out = append(out, &ClientSc{Prop: "C11", Enforce: enforce, Suffix: 3, FinalClose: true, Behav: bh,
									DefaultDialer: v&1 != 0, DialCtxCancelled: v&2 != 0, Cluster: v&4 != 0,
									Callers: []CallerSc{{Calls: calls}}})
							}
						}
					}
				}
			}
		}
	}
	// a server that hangs up after every reply, behind a transport whose writes return late
	for _, enforce := range []bool{true, false} {
		for n := 1; n <= 3; n++ {
			calls := make([]CallSc, n)
			for i := range calls {
				calls[i] = CallSc{Kind: "request", Bytes: i == 1}
			}
			out = append(out, &ClientSc{Prop: "C11", Enforce: enforce, Suffix: 5, FinalClose: true, HangUpServer: true, Callers: []CallerSc{{Calls: calls}}})
		}
	}
	return out
}

func c11SweepFloor(tier string) []*ClientSc {
	mk := func(bh []ReqBehav, two bool) *ClientSc {
		sc := &ClientSc{Prop: "C11", Enforce: true, Behav: bh, FinalClose: true, Suffix: 2,
			Callers: []CallerSc{{Calls: []CallSc{{Kind: "request"}, {Kind: "request"}}}}}
		if two {
			sc.Callers = append(sc.Callers, CallerSc{Calls: []CallSc{{Kind: "request"}, {Kind: "close"}}})
		}
		return sc
	}
	out := []*ClientSc{mk([]ReqBehav{{CloseAfter: true}, {}}, false)}
	// the connection dies after the first reply; two callers; the re-dial takes a few scheduling points
	{
		sc := mk([]ReqBehav{{CloseAfter: true}, {}, {}}, false)
		sc.Callers = []CallerSc{{Calls: []CallSc{{Kind: "request"}, {Kind: "request"}}}, {Calls: []CallSc{{Kind: "yield", N: 2}, {Kind: "request"}}}}
		sc.Conns = []ConnSc{{}, {DialYields: 3}, {DialYields: 2}}
		out = append(out, sc)
	}
	// a fault on the write of the first request, then the next call at every single-preemption schedule
	for _, kind := range []string{"reset", "epipe", "short-write"} {
		for op := 1; op <= 2; op++ {
			sc := mk([]ReqBehav{{}, {}}, false)
			sc.Conns = []ConnSc{{Plan: []simnet.FaultAt{{Op: op, Kind: kind}}}}
			out = append(out, sc)
		}
	}
	if tier == "thorough" {
		out = append(out, mk([]ReqBehav{{}, {CloseAfter: true}}, true), mk([]ReqBehav{{CloseBefore: true}, {}}, false), mk([]ReqBehav{{ResetAfter: true}, {}}, true))
	}
	return out
}

func init() {
	register(&Prop{
		ID: "C11", Engine: "client",
		Generate: genC11, Decode: decodeClientSc, Execute: execC11,
		Config: func(any) simrt.Config {
			return simrt.Config{MaxSteps: 60000, IdleProbe: 5 * time.Second, ClockJumpPM: 10}
		},
		Runs: clientRuns(200000, 10000000),
		Floors: []Floor{
			{Name: "single-fault", Count: func(t string) int { return len(c11Floor(t)) }, Scenario: func(t string, i int) any { return c11Floor(t)[i] }},
			{Name: "single-preemption", Sweep: true, Count: func(t string) int { return len(c11SweepFloor(t)) }, Scenario: func(t string, i int) any { return c11SweepFloor(t)[i] }},
		},
		Rule:        "one evaluation = one simulated run of the real kmipclient.Client (dial, negotiation, calls, reconnects, Close) with faults injected at chosen client-side I/O operation indexes and by the scripted server; distinct = distinct event-log hashes among runs with at least one fault or preemption",
		Components:  clientComponents,
		Assumptions: []string{"rewriter is semantics-preserving (pass-through run of the repository's tests)", "simnet fault list = DESIGN §2.5", "recovery oracle uses the weaker reading: in a fault-free suffix only the first call may fail"},
	})
	_ = fmt.Sprint
}
