package harness

import (
	"context"
	"crypto"
	"crypto/elliptic"
	"encoding/json"
	"fmt"
	"io"
	"math/big"
	"reflect"
	"strings"
	"time"

	"kmipverif/simnet"
	"kmipverif/simrt"

	"github.com/ovh/kmip-go"
	"github.com/ovh/kmip-go/kmipclient"
	"github.com/ovh/kmip-go/payloads"
	"github.com/ovh/kmip-go/ttlv"
)

// ---- C12: client turns every protocol-violating server response into an error

func symKey() *kmip.SymmetricKey {
	b := []byte{1, 2, 3, 4, 5, 6, 7, 8, 9, 10, 11, 12, 13, 14, 15, 16}
	return &kmip.SymmetricKey{KeyBlock: kmip.KeyBlock{
		KeyFormatType:          kmip.KeyFormatTypeRaw,
		KeyValue:               &kmip.KeyValue{Plain: &kmip.PlainKeyValue{KeyMaterial: kmip.KeyMaterial{Bytes: &b}}},
		CryptographicAlgorithm: kmip.CryptographicAlgorithmAES,
		CryptographicLength:    128,
	}}
}

func nameAttr() kmip.Attribute {
	return kmip.Attribute{AttributeName: kmip.AttributeNameName, AttributeValue: kmip.Name{NameValue: "n", NameType: kmip.NameTypeUninterpretedTextString}}
}

// opCase is one representative call of the fluent API with its correct response.
type opCase struct {
	name string
	op   kmip.Operation
	call func(c *kmipclient.Client, ctx context.Context) (any, error)
	resp func() kmip.OperationPayload
}

var usage = kmip.CryptographicUsageEncrypt | kmip.CryptographicUsageDecrypt

var opCases = []opCase{
	{"Activate", kmip.OperationActivate, func(c *kmipclient.Client, ctx context.Context) (any, error) { return c.Activate("id").ExecContext(ctx) },
		func() kmip.OperationPayload { return &payloads.ActivateResponsePayload{UniqueIdentifier: "id"} }},
	{"AddAttribute", kmip.OperationAddAttribute, func(c *kmipclient.Client, ctx context.Context) (any, error) {
		return c.AddAttribute("id", kmip.AttributeNameName, kmip.Name{NameValue: "n", NameType: kmip.NameTypeUninterpretedTextString}).ExecContext(ctx)
	}, func() kmip.OperationPayload {
		return &payloads.AddAttributeResponsePayload{UniqueIdentifier: "id", Attribute: nameAttr()}
	}},
	{"Archive", kmip.OperationArchive, func(c *kmipclient.Client, ctx context.Context) (any, error) { return c.Archive("id").ExecContext(ctx) },
		func() kmip.OperationPayload { return &payloads.ArchiveResponsePayload{UniqueIdentifier: "id"} }},
	{"Recover", kmip.OperationRecover, func(c *kmipclient.Client, ctx context.Context) (any, error) { return c.Recover("id").ExecContext(ctx) },
		func() kmip.OperationPayload { return &payloads.RecoverResponsePayload{UniqueIdentifier: "id"} }},
	{"Create", kmip.OperationCreate, func(c *kmipclient.Client, ctx context.Context) (any, error) {
		return c.Create().AES(256, usage).WithName("k").ExecContext(ctx)
	}, func() kmip.OperationPayload {
		return &payloads.CreateResponsePayload{ObjectType: kmip.ObjectTypeSymmetricKey, UniqueIdentifier: "id"}
	}},
	{"CreateKeyPair", kmip.OperationCreateKeyPair, func(c *kmipclient.Client, ctx context.Context) (any, error) {
		return c.CreateKeyPair().RSA(2048, kmip.CryptographicUsageSign, kmip.CryptographicUsageVerify).ExecContext(ctx)
	}, func() kmip.OperationPayload {
		return &payloads.CreateKeyPairResponsePayload{PrivateKeyUniqueIdentifier: "a", PublicKeyUniqueIdentifier: "b"}
	}},
	{"DeleteAttribute", kmip.OperationDeleteAttribute, func(c *kmipclient.Client, ctx context.Context) (any, error) {
		return c.DeleteAttribute("id", kmip.AttributeNameName).ExecContext(ctx)
	}, func() kmip.OperationPayload {
		return &payloads.DeleteAttributeResponsePayload{UniqueIdentifier: "id", Attribute: nameAttr()}
	}},
	{"Destroy", kmip.OperationDestroy, func(c *kmipclient.Client, ctx context.Context) (any, error) { return c.Destroy("id").ExecContext(ctx) },
		func() kmip.OperationPayload { return &payloads.DestroyResponsePayload{UniqueIdentifier: "id"} }},
	{"Encrypt", kmip.OperationEncrypt, func(c *kmipclient.Client, ctx context.Context) (any, error) {
		return c.Encrypt("id").Data([]byte("plain")).ExecContext(ctx)
	}, func() kmip.OperationPayload {
		return &payloads.EncryptResponsePayload{UniqueIdentifier: "id", Data: []byte("cipher")}
	}},
	{"Decrypt", kmip.OperationDecrypt, func(c *kmipclient.Client, ctx context.Context) (any, error) {
		return c.Decrypt("id").Data([]byte("cipher")).ExecContext(ctx)
	}, func() kmip.OperationPayload {
		return &payloads.DecryptResponsePayload{UniqueIdentifier: "id", Data: []byte("plain")}
	}},
	{"Get", kmip.OperationGet, func(c *kmipclient.Client, ctx context.Context) (any, error) { return c.Get("id").ExecContext(ctx) },
		func() kmip.OperationPayload {
			return &payloads.GetResponsePayload{ObjectType: kmip.ObjectTypeSymmetricKey, UniqueIdentifier: "id", Object: symKey()}
		}},
	{"GetAttributeList", kmip.OperationGetAttributeList, func(c *kmipclient.Client, ctx context.Context) (any, error) {
		return c.GetAttributeList("id").ExecContext(ctx)
	}, func() kmip.OperationPayload {
		return &payloads.GetAttributeListResponsePayload{UniqueIdentifier: "id", AttributeName: []kmip.AttributeName{kmip.AttributeNameName}}
	}},
	{"GetAttributes", kmip.OperationGetAttributes, func(c *kmipclient.Client, ctx context.Context) (any, error) {
		return c.GetAttributes("id", kmip.AttributeNameName).ExecContext(ctx)
	}, func() kmip.OperationPayload {
		return &payloads.GetAttributesResponsePayload{UniqueIdentifier: "id", Attribute: []kmip.Attribute{nameAttr()}}
	}},
	{"GetUsageAllocation", kmip.OperationGetUsageAllocation, func(c *kmipclient.Client, ctx context.Context) (any, error) {
		return c.GetUsageAllocation("id", 3).ExecContext(ctx)
	}, func() kmip.OperationPayload {
		return &payloads.GetUsageAllocationResponsePayload{UniqueIdentifier: "id"}
	}},
	{"Import", kmip.OperationImport, func(c *kmipclient.Client, ctx context.Context) (any, error) {
		return c.Import("id", symKey()).ExecContext(ctx)
	}, func() kmip.OperationPayload { return &payloads.ImportResponsePayload{UniqueIdentifier: "id"} }},
	{"Export", kmip.OperationExport, func(c *kmipclient.Client, ctx context.Context) (any, error) { return c.Export("id").ExecContext(ctx) },
		func() kmip.OperationPayload {
			return &payloads.ExportResponsePayload{ObjectType: kmip.ObjectTypeSymmetricKey, UniqueIdentifier: "id", Object: symKey()}
		}},
	{"Locate", kmip.OperationLocate, func(c *kmipclient.Client, ctx context.Context) (any, error) {
		return c.Locate().WithName("k").ExecContext(ctx)
	}, func() kmip.OperationPayload {
		return &payloads.LocateResponsePayload{UniqueIdentifier: []string{"a", "b"}}
	}},
	{"ModifyAttribute", kmip.OperationModifyAttribute, func(c *kmipclient.Client, ctx context.Context) (any, error) {
		return c.ModifyAttribute("id", kmip.AttributeNameName, kmip.Name{NameValue: "n", NameType: kmip.NameTypeUninterpretedTextString}).ExecContext(ctx)
	}, func() kmip.OperationPayload {
		return &payloads.ModifyAttributeResponsePayload{UniqueIdentifier: "id", Attribute: nameAttr()}
	}},
	{"ObtainLease", kmip.OperationObtainLease, func(c *kmipclient.Client, ctx context.Context) (any, error) {
		return c.ObtainLease("id").ExecContext(ctx)
	}, func() kmip.OperationPayload {
		return &payloads.ObtainLeaseResponsePayload{UniqueIdentifier: "id", LeaseTime: time.Hour, LastChangeDate: time.Unix(1700000000, 0).UTC()}
	}},
	{"Query", kmip.OperationQuery, func(c *kmipclient.Client, ctx context.Context) (any, error) {
		return c.Query().Operations().Objects().ExecContext(ctx)
	}, func() kmip.OperationPayload {
		return &payloads.QueryResponsePayload{Operations: []kmip.Operation{kmip.OperationGet}, ObjectType: []kmip.ObjectType{kmip.ObjectTypeSymmetricKey}}
	}},
	{"Register", kmip.OperationRegister, func(c *kmipclient.Client, ctx context.Context) (any, error) {
		return c.Register().SecretString(kmip.SecretDataTypePassword, "s3cret").WithName("s").ExecContext(ctx)
	}, func() kmip.OperationPayload { return &payloads.RegisterResponsePayload{UniqueIdentifier: "id"} }},
	{"Rekey", kmip.OperationReKey, func(c *kmipclient.Client, ctx context.Context) (any, error) { return c.Rekey("id").ExecContext(ctx) },
		func() kmip.OperationPayload { return &payloads.RekeyResponsePayload{UniqueIdentifier: "id2"} }},
	{"RekeyKeyPair", kmip.OperationReKeyKeyPair, func(c *kmipclient.Client, ctx context.Context) (any, error) {
		return c.RekeyKeyPair("id").ExecContext(ctx)
	}, func() kmip.OperationPayload {
		return &payloads.RekeyKeyPairResponsePayload{PrivateKeyUniqueIdentifier: "a", PublicKeyUniqueIdentifier: "b"}
	}},
	{"Revoke", kmip.OperationRevoke, func(c *kmipclient.Client, ctx context.Context) (any, error) {
		return c.Revoke("id").WithRevocationReasonCode(kmip.RevocationReasonCodeKeyCompromise).ExecContext(ctx)
	}, func() kmip.OperationPayload { return &payloads.RevokeResponsePayload{UniqueIdentifier: "id"} }},
	{"Sign", kmip.OperationSign, func(c *kmipclient.Client, ctx context.Context) (any, error) {
		return c.Sign("id").Data([]byte("d")).ExecContext(ctx)
	}, func() kmip.OperationPayload {
		return &payloads.SignResponsePayload{UniqueIdentifier: "id", SignatureData: []byte("sig")}
	}},
	{"SignatureVerify", kmip.OperationSignatureVerify, func(c *kmipclient.Client, ctx context.Context) (any, error) {
		return c.SignatureVerify("id").Data([]byte("d")).Signature([]byte("sig")).ExecContext(ctx)
	}, func() kmip.OperationPayload {
		return &payloads.SignatureVerifyResponsePayload{UniqueIdentifier: "id", ValidityIndicator: kmip.ValidityIndicatorValid}
	}},
	{"Request(raw)", kmip.OperationActivate, func(c *kmipclient.Client, ctx context.Context) (any, error) {
		return c.Request(ctx, &payloads.ActivateRequestPayload{UniqueIdentifier: "id"})
	}, func() kmip.OperationPayload { return &payloads.ActivateResponsePayload{UniqueIdentifier: "id"} }},
}

// ItemSubst describes how the server falsifies one response item.
type ItemSubst struct {
	Op      string `json:"op,omitempty"`       // "" same | other | unknown | absent
	OtherOp int    `json:"other_op,omitempty"` // index into opCases
	Status  int    `json:"status,omitempty"`   // 0 success 1 failed 2 pending 3 undone 4 unnamed
	Reason  int    `json:"reason,omitempty"`   // 0 none, 1.. named, 99 unnamed
	Message bool   `json:"message,omitempty"`
	// MsgStyle: what the Result Message looks like: 0 plain | 1 with per-cent signs and things that look like format
	// verbs | 2 quotes, backslashes, a line break, non-ASCII | 3 two thousand characters
	MsgStyle  int    `json:"msg_style,omitempty"`
	Payload   string `json:"payload,omitempty"` // "" right | other | opaque | absent
	PayloadOp int    `json:"payload_op,omitempty"`
}

type RespSubst struct {
	HeaderDelta int         `json:"header_delta,omitempty"` // BatchCount = items + delta
	ItemsDelta  int         `json:"items_delta,omitempty"`  // -1 drop last item, +1 duplicate last item, -9 no item at all
	Items       []ItemSubst `json:"items,omitempty"`        // by item index (cycled); empty = all items correct
	SwapIDs     bool        `json:"swap_ids,omitempty"`
	// DupIDs: every response item echoes the Unique Batch Item ID of the first request item
	DupIDs bool `json:"dup_ids,omitempty"`
	// Decor: optional elements a server may add to an otherwise unchanged response (bitmask): 1 a non-critical
	// MessageExtension on every item, 2 an AsynchronousCorrelationValue on every item, 4 no UniqueBatchItemID echoed,
	// 8 correlation values in the header. A client may accept or reject such a response; all other rules apply.
	Decor int `json:"decor,omitempty"`
}

func (r *RespSubst) violating() bool {
	if r == nil {
		return false
	}
	if r.HeaderDelta != 0 || r.ItemsDelta != 0 || r.SwapIDs || r.DupIDs || r.Decor != 0 {
		return true // (decorated responses: "may be rejected", see Decor)
	}
	for _, it := range r.Items {
		if it != (ItemSubst{}) {
			return true
		}
	}
	return false
}

// SignerSc drives the crypto.Signer helper (Client.Signer + Sign): four exchanges (GetAttributes of the
// private key, GetAttributes of the public key, Get of the public key, Sign), any of which may be falsified.
type SignerSc struct {
	Alg     int  `json:"alg"`      // algorithm the key attributes state: 0 RSA, 1 EC, 2 ECDSA, 3 AES (unsupported)
	Key     int  `json:"key"`      // public key material actually returned: 0 RSA, 1 EC P-256
	SigLen  int  `json:"sig_len"`  // length of the signature the server returns
	SubstAt int  `json:"subst_at"` // which of the four responses the substitution applies to
	NoLink  bool `json:"no_link,omitempty"`
	// BadAttr: 1..4 = the ObjectType / CryptographicAlgorithm / CryptographicUsageMask / Link attribute of the
	// GetAttributes replies is encoded with a value of the wrong TTLV type (a text string)
	BadAttr int `json:"bad_attr,omitempty"`
	// KeyShape: 0 complete key block, 1 key block without key value, 2 key value without material
	KeyShape int `json:"key_shape,omitempty"`
}

type C12Sc struct {
	Signer *SignerSc `json:"signer,omitempty"`
	Op     int       `json:"op"` // index into opCases; -1 = batch of two
	Batch  []int     `json:"batch,omitempty"`
	// BatchOption: 0 Client.Batch; 1..3 Client.BatchOpt with OnBatchErr(Continue / Stop / Undo). The option tells the
	// server what to do; it does not entitle a response to have fewer items than the request
	BatchOption int        `json:"batch_option,omitempty"`
	Subst       *RespSubst `json:"subst,omitempty"`
	Discovery   *RespSubst `json:"discovery,omitempty"` // nil: version enforced, no discovery exchange
	Chunk       int        `json:"chunk,omitempty"`
	// Mw: the library's own client middlewares are installed (bitmask): 1 DebugMiddleware with the default marshaller,
	// 2 CorrelationValueMiddleware, 4 TimeoutMiddleware, 8 DebugMiddleware with a JSON marshaller. They see every
	// response before the checks of the call do, and the statement holds with or without them
	Mw int `json:"mw,omitempty"`
	// CloseAfter: the server closes the connection right after each reply (as servers do after refusing a request):
	// the reply was sent all the same, and it is the reply the call must be judged by
	CloseAfter bool `json:"close_after,omitempty"`
}

var statusVals = []kmip.ResultStatus{kmip.ResultStatusSuccess, kmip.ResultStatusOperationFailed, kmip.ResultStatusOperationPending, kmip.ResultStatusOperationUndone, kmip.ResultStatus(9)}

func reasonVal(r int) kmip.ResultReason {
	switch {
	case r == 0:
		return 0
	case r == 99:
		return kmip.ResultReason(0x7777)
	default:
		return kmip.ResultReason(r) // 1..: named reasons
	}
}

func genItemSubst(g *simrt.Tape) ItemSubst {
	var it ItemSubst
	if g.Draw(3) == 0 {
		return it
	}
	switch g.Draw(6) {
	case 1:
		it.Op = "other"
		it.OtherOp = g.Draw(len(opCases) - 1)
	case 2:
		it.Op = "unknown"
		it.OtherOp = g.Draw(6)
	case 3:
		it.Op = "absent"
	}
	if g.Draw(2) == 1 {
		it.Status = g.Draw(5)
	}
	switch g.Draw(4) {
	case 1:
		it.Reason = 1 + g.Draw(20)
	case 2:
		it.Reason = 99
	}
	it.Message = g.Draw(2) == 1
	if it.Message && g.Draw(2) == 0 {
		it.MsgStyle = 1 + g.Draw(3)
	}
	switch g.Draw(6) {
	case 1:
		it.Payload = "other"
		it.PayloadOp = g.Draw(len(opCases) - 1)
	case 2:
		it.Payload = "opaque"
	case 3, 4:
		it.Payload = "absent"
	}
	return it
}

func genRespSubst(g *simrt.Tape) *RespSubst {
	r := &RespSubst{}
	if g.Draw(4) == 0 {
		r.HeaderDelta = []int{-1, 1, 2}[g.Draw(3)]
	}
	if g.Draw(5) == 0 {
		r.ItemsDelta = []int{-1, 1, -9}[g.Draw(3)]
	}
	n := 1 + g.Draw(2)
	for i := 0; i < n; i++ {
		r.Items = append(r.Items, genItemSubst(g))
	}
	r.SwapIDs = g.Draw(8) == 0
	r.DupIDs = g.Draw(10) == 0
	if g.Draw(4) == 0 {
		r.Decor = 1 + g.Draw(15)
	}
	return r
}

func genC12(g *simrt.Tape, tier string) any {
	sc := &C12Sc{Op: g.Draw(len(opCases))}
	if g.Draw(8) == 0 {
		sc.Signer = &SignerSc{Alg: g.Draw(4), Key: g.Draw(2), SigLen: []int{0, 8, 64, 71, 256}[g.Draw(5)], SubstAt: g.Draw(4), NoLink: g.Draw(8) == 0}
		if g.Draw(5) == 0 {
			sc.Signer.BadAttr = 1 + g.Draw(4)
		}
		if g.Draw(5) == 0 {
			sc.Signer.KeyShape = 1 + g.Draw(2)
		}
		sc.Op = 0
		if g.Draw(3) != 0 {
			sc.Subst = genRespSubst(g)
		}
		sc.Chunk = []int{simnet.ChunkMax, simnet.ChunkRandom}[g.Draw(2)]
		return sc
	}
	if g.Draw(6) == 0 {
		sc.Op = -1
		sc.Batch = []int{g.Draw(len(opCases) - 1), g.Draw(len(opCases) - 1)}
		if g.Draw(2) == 1 {
			sc.Batch = append(sc.Batch, g.Draw(len(opCases)-1))
		}
		sc.BatchOption = g.Draw(4)
	}
	if g.Draw(8) != 0 {
		sc.Subst = genRespSubst(g)
	}
	switch g.Draw(5) {
	case 0:
		sc.Discovery = &RespSubst{}
	case 1, 2:
		sc.Discovery = genRespSubst(g)
	}
	sc.Chunk = []int{simnet.ChunkMax, simnet.ChunkRandom}[g.Draw(2)]
	if g.Draw(3) == 0 {
		sc.Mw = 1 + g.Draw(15)
	}
	// (only where the call is a single exchange on a fresh connection: after a close the next exchange of the same
	// client may fail for reasons that are C11's, not the response's)
	sc.CloseAfter = sc.Discovery == nil && sc.Signer == nil && g.Draw(3) == 0
	return sc
}

// c12Floor: every operation x a fixed list of single substitutions.
func c12Floor(tier string) []*C12Sc {
	singles := []*RespSubst{
		nil,
		{Items: []ItemSubst{{Payload: "absent"}}},
		{Items: []ItemSubst{{Payload: "other", PayloadOp: 10}}},
		{Items: []ItemSubst{{Payload: "other", PayloadOp: 0}}},
		{Items: []ItemSubst{{Payload: "opaque"}}},
		{Items: []ItemSubst{{Op: "other", OtherOp: 10}}},
		{Items: []ItemSubst{{Op: "other", OtherOp: 0, Payload: "other", PayloadOp: 0}}},
		{Items: []ItemSubst{{Op: "unknown"}}}, {Items: []ItemSubst{{Op: "unknown", OtherOp: 1}}}, {Items: []ItemSubst{{Op: "unknown", OtherOp: 2}}},
		{Items: []ItemSubst{{Op: "unknown", OtherOp: 3}}}, {Items: []ItemSubst{{Op: "unknown", OtherOp: 4}}}, {Items: []ItemSubst{{Op: "unknown", OtherOp: 5}}},
		{Items: []ItemSubst{{Op: "unknown", OtherOp: 1, Payload: "opaque"}}}, {Items: []ItemSubst{{Op: "unknown", OtherOp: 1, Payload: "absent"}}},
		{Items: []ItemSubst{{Op: "absent"}}},
		{Items: []ItemSubst{{Op: "absent", Payload: "absent"}}},
		{Items: []ItemSubst{{Status: 1, Reason: 1, Message: true}}},
		{Items: []ItemSubst{{Status: 1, Reason: 99, Message: true, Payload: "absent"}}},
		{Items: []ItemSubst{{Status: 1, Payload: "absent"}}},
		{Items: []ItemSubst{{Status: 2, Payload: "absent"}}},
		{Items: []ItemSubst{{Status: 3, Reason: 5, Payload: "absent"}}},
		{Items: []ItemSubst{{Status: 4, Reason: 2, Message: true, Payload: "absent"}}},
		{Items: []ItemSubst{{Status: 1, Reason: 3, Message: true}}},                                  // failed but with a payload
		{Items: []ItemSubst{{Op: "absent", Status: 1, Reason: 1, Message: true, Payload: "absent"}}}, // the shape of a whole-message rejection
		{Items: []ItemSubst{{Op: "other", OtherOp: 10, Status: 1, Reason: 4, Message: true, Payload: "absent"}}},
		{Items: []ItemSubst{{Op: "absent", Status: 3, Reason: 2, Message: true, MsgStyle: 2, Payload: "absent"}}},
		{Items: []ItemSubst{{Status: 1, Reason: 1, Message: true, MsgStyle: 1, Payload: "absent"}}},
		{Items: []ItemSubst{{Status: 1, Reason: 5, Message: true, MsgStyle: 2, Payload: "absent"}}},
		{Items: []ItemSubst{{Status: 3, Reason: 2, Message: true, MsgStyle: 3, Payload: "absent"}}},
		{HeaderDelta: 1}, {HeaderDelta: -1}, {ItemsDelta: 1}, {ItemsDelta: -9}, {ItemsDelta: 1, HeaderDelta: 1}, {ItemsDelta: -9, HeaderDelta: 1}, {ItemsDelta: -9, HeaderDelta: 2},
		{Decor: 1}, {Decor: 2}, {Decor: 4}, {Decor: 8}, {Decor: 15},
		{Decor: 3, Items: []ItemSubst{{Status: 1, Reason: 4, Message: true, Payload: "absent"}}},
		{Decor: 2, Items: []ItemSubst{{Status: 2, Payload: "absent"}}},
		{Decor: 1, Items: []ItemSubst{{Payload: "absent"}}},
	}
	var out []*C12Sc
	for op := range opCases {
		for _, sb := range singles {
			out = append(out, &C12Sc{Op: op, Subst: sb})
		}
	}
	// ... and with a server that hangs up right after each reply
	for _, op := range []int{0, 10} {
		for _, sb := range singles {
			out = append(out, &C12Sc{Op: op, Subst: sb, CloseAfter: true})
		}
	}
	// the same single substitutions seen through the library's own middlewares first
	for _, mw := range []int{1, 2, 4, 8, 15} {
		for _, op := range []int{0, 10, 16} {
			for _, sb := range singles {
				out = append(out, &C12Sc{Op: op, Subst: sb, Mw: mw})
			}
		}
		for _, sb := range singles {
			d := sb
			if d == nil {
				d = &RespSubst{}
			}
			out = append(out, &C12Sc{Op: 0, Discovery: d, Mw: mw})
		}
		out = append(out, &C12Sc{Op: -1, Batch: []int{0, 10}, Subst: &RespSubst{ItemsDelta: -9}, Mw: mw}, &C12Sc{Op: -1, Batch: []int{0, 10}, Subst: &RespSubst{ItemsDelta: -9, HeaderDelta: 1}, Mw: mw})
	}
	// batches under every continuation option, with self-consistent truncated / extended / failed replies
	for opt := 0; opt < 4; opt++ {
		for _, sb := range []*RespSubst{nil, {ItemsDelta: -1}, {ItemsDelta: -9}, {ItemsDelta: 1}, {HeaderDelta: 1}, {SwapIDs: true}, {DupIDs: true},
			{DupIDs: true, Items: []ItemSubst{{Status: 1, Reason: 1, Message: true, Payload: "absent"}, {}}},
			{Items: []ItemSubst{{Status: 1, Reason: 1, Message: true, Payload: "absent"}, {}}},
			{Items: []ItemSubst{{}, {Status: 1, Reason: 1, Message: true, Payload: "absent"}}},
			{ItemsDelta: -1, Items: []ItemSubst{{Status: 1, Reason: 1, Message: true, Payload: "absent"}, {}}},
			{Items: []ItemSubst{{Status: 1, Reason: 1, Message: true, Payload: "absent"}, {Status: 1, Reason: 4, Message: true, Payload: "absent"}}},
			{Items: []ItemSubst{{Status: 1, Reason: 5, Message: true, MsgStyle: 1, Payload: "absent"}, {}, {Status: 3, Reason: 2, Message: true, Payload: "absent"}}}} {
			out = append(out, &C12Sc{Op: -1, Batch: []int{0, 10}, BatchOption: opt, Subst: sb})
			out = append(out, &C12Sc{Op: -1, Batch: []int{3, 0, 7}, BatchOption: opt, Subst: sb})
		}
	}
	// the crypto.Signer helper: every algorithm x key material x signature length, and every single substitution at every exchange
	for alg := 0; alg < 4; alg++ {
		for key := 0; key < 2; key++ {
			for _, sl := range []int{0, 8, 64, 71, 256} {
				out = append(out, &C12Sc{Signer: &SignerSc{Alg: alg, Key: key, SigLen: sl}})
			}
			for ba := 1; ba <= 4; ba++ {
				out = append(out, &C12Sc{Signer: &SignerSc{Alg: alg, Key: key, SigLen: 64, BadAttr: ba}})
			}
			for ks := 1; ks <= 2; ks++ {
				out = append(out, &C12Sc{Signer: &SignerSc{Alg: alg, Key: key, SigLen: 64, KeyShape: ks}})
			}
			for at := 0; at < 4; at++ {
				for _, sb := range singles[1:] {
					out = append(out, &C12Sc{Signer: &SignerSc{Alg: alg, Key: key, SigLen: 64, SubstAt: at}, Subst: sb})
				}
			}
		}
	}
	// discovery exchange
	for st := 1; st <= 4; st++ {
		for _, rs := range []int{0, 5, 1, 99} {
			out = append(out, &C12Sc{Op: 0, Discovery: &RespSubst{Items: []ItemSubst{{Status: st, Reason: rs, Message: true, Payload: "absent"}}}})
		}
	}
	for _, sb := range singles {
		out = append(out, &C12Sc{Op: 0, Discovery: sb})
		if sb == nil {
			out[len(out)-1].Discovery = &RespSubst{}
		}
	}
	return out
}

func decodeC12(raw json.RawMessage) (any, error) {
	sc := &C12Sc{}
	return sc, json.Unmarshal(raw, sc)
}

// caseForOp finds the correct response payload for an operation.
func respFor(op kmip.Operation) kmip.OperationPayload {
	if op == kmip.OperationDiscoverVersions {
		return &payloads.DiscoverVersionsResponsePayload{ProtocolVersion: []kmip.ProtocolVersion{kmip.V1_4, kmip.V1_3}}
	}
	for _, c := range opCases {
		if c.op == op {
			return c.resp()
		}
	}
	return nil
}

type c12Sent struct {
	op      kmip.Operation
	item    ItemSubst
	status  kmip.ResultStatus
	reason  kmip.ResultReason
	message string
}

// buildResponse builds the (possibly falsified) response to req.
func buildResponse(req *kmip.RequestMessage, sb *RespSubst, sent *[]c12Sent) *kmip.ResponseMessage {
	return buildResponseWith(req, sb, sent, func(bi kmip.RequestBatchItem) kmip.OperationPayload { return respFor(bi.Operation) })
}

var (
	rsaModulus = func() *big.Int {
		n, _ := new(big.Int).SetString("c7f1bc1dfb1be82d244aef01228c1409c198894ca9e21430f1669b4aa3864c9f37f3038d4d5f3f0c6f0d6d7f0c1c2f64b6ffe44a0b2b1e43e5a9e7b2d55f3a5e0f3c0b9a8d7c6b5a49382716059f8e7d6c5b4a39281706f5e4d3c2b1a09f8e7d6c5b4a392817060504030201ffeeddccbbaa99887766554433221100ffeeddccbb5d", 16)
		return n
	}()
)

func signerResp(sg *SignerSc, bi kmip.RequestBatchItem) kmip.OperationPayload {
	id := ""
	if p, ok := bi.RequestPayload.(*payloads.ActivateRequestPayload); ok {
		id = p.UniqueIdentifier
	}
	alg := []kmip.CryptographicAlgorithm{kmip.CryptographicAlgorithmRSA, kmip.CryptographicAlgorithmEC, kmip.CryptographicAlgorithmECDSA, kmip.CryptographicAlgorithmAES}[sg.Alg%4]
	switch bi.Operation {
	case kmip.OperationGetAttributes:
		ot, link, usage := kmip.ObjectTypePrivateKey, kmip.Link{LinkType: kmip.LinkTypePublicKeyLink, LinkedObjectIdentifier: "pub"}, kmip.CryptographicUsageSign
		if id == "pub" {
			ot, link, usage = kmip.ObjectTypePublicKey, kmip.Link{LinkType: kmip.LinkTypePrivateKeyLink, LinkedObjectIdentifier: "priv"}, kmip.CryptographicUsageVerify
		}
		attrs := []kmip.Attribute{
			{AttributeName: kmip.AttributeNameObjectType, AttributeValue: ot},
			{AttributeName: kmip.AttributeNameCryptographicAlgorithm, AttributeValue: alg},
			{AttributeName: kmip.AttributeNameCryptographicUsageMask, AttributeValue: usage},
		}
		if !sg.NoLink {
			attrs = append(attrs, kmip.Attribute{AttributeName: kmip.AttributeNameLink, AttributeValue: link})
		}
		if sg.BadAttr > 0 {
			bad := []kmip.AttributeName{kmip.AttributeNameObjectType, kmip.AttributeNameCryptographicAlgorithm, kmip.AttributeNameCryptographicUsageMask, kmip.AttributeNameLink}[(sg.BadAttr-1)%4]
			for i := range attrs {
				if attrs[i].AttributeName == bad {
					attrs[i].AttributeValue = "a text string where another type belongs"
				}
			}
		}
		return &payloads.GetAttributesResponsePayload{UniqueIdentifier: id, Attribute: attrs}
	case kmip.OperationGet:
		var kb kmip.KeyBlock
		if sg.Key == 0 {
			kb = kmip.KeyBlock{KeyFormatType: kmip.KeyFormatTypeTransparentRSAPublicKey, CryptographicAlgorithm: kmip.CryptographicAlgorithmRSA, CryptographicLength: 1024,
				KeyValue: &kmip.KeyValue{Plain: &kmip.PlainKeyValue{KeyMaterial: kmip.KeyMaterial{TransparentRSAPublicKey: &kmip.TransparentRSAPublicKey{Modulus: *rsaModulus, PublicExponent: *big.NewInt(65537)}}}}}
		} else {
			p := elliptic.P256().Params()
			q := append([]byte{4}, append(p.Gx.FillBytes(make([]byte, 32)), p.Gy.FillBytes(make([]byte, 32))...)...)
			kb = kmip.KeyBlock{KeyFormatType: kmip.KeyFormatTypeTransparentECPublicKey, CryptographicAlgorithm: kmip.CryptographicAlgorithmEC, CryptographicLength: 256,
				KeyValue: &kmip.KeyValue{Plain: &kmip.PlainKeyValue{KeyMaterial: kmip.KeyMaterial{TransparentECPublicKey: &kmip.TransparentECPublicKey{RecommendedCurve: kmip.RecommendedCurveP_256, QString: q}}}}}
		}
		switch sg.KeyShape {
		case 1:
			kb.KeyValue = nil
		case 2:
			kb.KeyValue = &kmip.KeyValue{}
		}
		return &payloads.GetResponsePayload{ObjectType: kmip.ObjectTypePublicKey, UniqueIdentifier: id, Object: &kmip.PublicKey{KeyBlock: kb}}
	case kmip.OperationSign:
		sig := make([]byte, sg.SigLen)
		for i := range sig {
			sig[i] = byte(i + 1)
		}
		return &payloads.SignResponsePayload{UniqueIdentifier: id, SignatureData: sig}
	}
	return respFor(bi.Operation)
}

func buildResponseWith(req *kmip.RequestMessage, sb *RespSubst, sent *[]c12Sent, respOf func(kmip.RequestBatchItem) kmip.OperationPayload) *kmip.ResponseMessage {
	resp := &kmip.ResponseMessage{Header: kmip.ResponseHeader{ProtocolVersion: req.Header.ProtocolVersion, TimeStamp: time.Unix(1700000000, 0).UTC()}}
	for i, bi := range req.BatchItem {
		var it ItemSubst
		if sb != nil && len(sb.Items) > 0 {
			it = sb.Items[i%len(sb.Items)]
		}
		ri := kmip.ResponseBatchItem{Operation: bi.Operation, UniqueBatchItemID: bi.UniqueBatchItemID}
		switch it.Op {
		case "other":
			ri.Operation = opCases[it.OtherOp%len(opCases)].op
		case "unknown":
			// codes the library has never heard of: just past the last registered one, in the gap, the largest
			// standard value, a vendor extension
			ri.Operation = []kmip.Operation{0x7E, 0x2C, 0x2D, 0x7FFFFFFF, 0x80000001, 0x10}[it.OtherOp%6]
		case "absent":
			ri.Operation = 0
		}
		ri.ResultStatus = statusVals[it.Status%len(statusVals)]
		ri.ResultReason = reasonVal(it.Reason)
		if it.Message {
			ri.ResultMessage = fmt.Sprintf("srv-msg-%d", i)
			switch it.MsgStyle {
			case 1:
				ri.ResultMessage += ": 100% of the quota is in use (%d objects, %s, %v, 50%)"
			case 2:
				ri.ResultMessage += ": \"quoted\" back\\slash\nsecond line \u00fcn\u00ef\u4e2d"
			case 3:
				ri.ResultMessage += ": " + strings.Repeat("long message ", 160)
			}
		}
		switch it.Payload {
		case "":
			ri.ResponsePayload = respOf(bi)
		case "other":
			ri.ResponsePayload = opCases[it.PayloadOp%len(opCases)].resp()
		case "opaque":
			ri.ResponsePayload = kmip.NewUnknownPayload(bi.Operation, ttlv.Value{Tag: 0x420094, Value: "opaque"}, ttlv.Value{Tag: 0x42005C, Value: ttlv.Enum(0x55)})
		case "absent":
		}
		if sb != nil {
			if sb.Decor&1 != 0 {
				ri.MessageExtension = &kmip.MessageExtension{VendorIdentification: "verif", VendorExtension: ttlv.Struct{{Tag: 0x420069, Value: int32(1)}}}
			}
			if sb.Decor&2 != 0 {
				ri.AsynchronousCorrelationValue = []byte("async-1")
			}
			if sb.Decor&4 != 0 {
				ri.UniqueBatchItemID = nil
			}
		}
		if sent != nil {
			*sent = append(*sent, c12Sent{op: bi.Operation, item: it, status: ri.ResultStatus, reason: ri.ResultReason, message: ri.ResultMessage})
		}
		resp.BatchItem = append(resp.BatchItem, ri)
	}
	if sb != nil {
		switch sb.ItemsDelta {
		case -1:
			if len(resp.BatchItem) > 0 {
				resp.BatchItem = resp.BatchItem[:len(resp.BatchItem)-1]
			}
		case 1:
			if len(resp.BatchItem) > 0 {
				resp.BatchItem = append(resp.BatchItem, resp.BatchItem[len(resp.BatchItem)-1])
			}
		case -9:
			resp.BatchItem = nil
		}
		if sb.DupIDs && len(resp.BatchItem) > 1 {
			for i := range resp.BatchItem {
				resp.BatchItem[i].UniqueBatchItemID = resp.BatchItem[0].UniqueBatchItemID
			}
		}
		if sb.SwapIDs && len(resp.BatchItem) > 1 {
			resp.BatchItem[0].UniqueBatchItemID, resp.BatchItem[1].UniqueBatchItemID = resp.BatchItem[1].UniqueBatchItemID, resp.BatchItem[0].UniqueBatchItemID
		}
	}
	resp.Header.BatchCount = int32(len(resp.BatchItem))
	if sb != nil {
		resp.Header.BatchCount += int32(sb.HeaderDelta)
		if sb.Decor&8 != 0 {
			resp.Header.ClientCorrelationValue, resp.Header.ServerCorrelationValue = "ccv", "scv"
		}
	}
	return resp
}

func execC12(x *X, scAny any) {
	sc := scAny.(*C12Sc)
	s := x.S
	csc := &ClientSc{Prop: "C12", Enforce: sc.Discovery == nil, Chunk: sc.Chunk}
	if sc.CloseAfter {
		csc.Behav = []ReqBehav{{CloseAfter: true}}
	}
	w := newClientWorld(x, csc)
	w.loose = true
	var sent []c12Sent
	var wire [][]byte
	nSigner := 0
	w.rawRespond = func(w *clientWorld, req *kmip.RequestMessage, connIdx int) []byte {
		sb := sc.Subst
		if sc.Signer != nil && !(len(req.BatchItem) == 1 && req.BatchItem[0].Operation == kmip.OperationDiscoverVersions) {
			idx := nSigner
			nSigner++
			if idx != sc.Signer.SubstAt {
				sb = nil
			} else if sb != nil {
				s.Fault("peer-substitute")
			}
			sent = sent[:0]
			return ttlv.MarshalTTLV(buildResponseWith(req, sb, &sent, func(bi kmip.RequestBatchItem) kmip.OperationPayload { return signerResp(sc.Signer, bi) }))
		}
		if len(req.BatchItem) == 1 && req.BatchItem[0].Operation == kmip.OperationDiscoverVersions {
			sb = sc.Discovery
			return ttlv.MarshalTTLV(buildResponse(req, sb, nil))
		}
		sent = sent[:0]
		b := ttlv.MarshalTTLV(buildResponse(req, sb, &sent))
		wire = append(wire, b)
		s.Fault("peer-substitute")
		return b
	}
	type result struct {
		done bool
		val  any
		vals kmipclient.BatchResult
		err  error
	}
	var res result
	var dialErr error
	dialled := false
	s.Spawn("caller", func() {
		o := []kmipclient.Option{kmipclient.WithDialerUnsafe(w.dialer)}
		if sc.Discovery == nil {
			o = append(o, kmipclient.EnforceVersion(kmip.V1_4))
		}
		var mws []kmipclient.Middleware
		if sc.Mw&1 != 0 {
			mws = append(mws, kmipclient.DebugMiddleware(io.Discard, nil))
		}
		if sc.Mw&2 != 0 {
			mws = append(mws, kmipclient.CorrelationValueMiddleware(func() string { return "c12" }))
		}
		if sc.Mw&4 != 0 {
			mws = append(mws, kmipclient.TimeoutMiddleware(time.Minute))
		}
		if sc.Mw&8 != 0 {
			mws = append(mws, kmipclient.DebugMiddleware(io.Discard, ttlv.MarshalJSON))
		}
		if len(mws) > 0 {
			o = append(o, kmipclient.WithMiddlewares(mws...))
		}
		c, err := kmipclient.DialContext(context.Background(), "sim", o...)
		dialled = true
		dialErr = err
		if err != nil {
			if c != nil {
				x.Reportf("C12.dial-returns-both", "dial", "Dial returned a client together with error %v", err)
			}
			return
		}
		if c == nil {
			x.Reportf("C12.dial-returns-neither", "dial", "Dial returned neither a client nor an error")
			return
		}
		w.client = c
		ctx := context.Background()
		if sc.Signer != nil {
			signer, err := c.Signer(ctx, "priv", "")
			if err != nil {
				res.err = err
			} else {
				digest := make([]byte, 32)
				res.val, res.err = signer.Sign(nil, digest, crypto.SHA256)
			}
		} else if sc.Op >= 0 {
			res.val, res.err = opCases[sc.Op].call(c, ctx)
		} else {
			var pls []kmip.OperationPayload
			for _, oi := range sc.Batch {
				// build the request payload of that operation through its builder
				pl := requestPayloadOf(c, oi)
				pls = append(pls, pl)
			}
			if sc.BatchOption > 0 {
				opt := []kmip.BatchErrorContinuationOption{kmip.BatchErrorContinuationOptionContinue, kmip.BatchErrorContinuationOptionStop, kmip.BatchErrorContinuationOptionUndo}[(sc.BatchOption-1)%3]
				res.vals, res.err = c.BatchOpt(ctx, pls, kmipclient.OnBatchErr(opt))
			} else {
				res.vals, res.err = c.Batch(ctx, pls...)
			}
		}
		res.done = true
		_ = c.Close()
	})
	s.Run()
	x.CommonOracles("C12")
	if len(s.Result().Panics) > 0 {
		return
	}
	if !dialled {
		x.Reportf("C12.hang", "dial", "Dial has not returned at quiescence")
		return
	}
	if dialErr != nil {
		if !sc.Discovery.violating() {
			x.Reportf("C12.correct-response-rejected", "discovery", "Dial failed with %v although the discovery response was conformant", dialErr)
		}
		return
	}
	// the discovery exchange itself: Dial succeeded, so the discovery reply must have been acceptable
	if d := sc.Discovery; d != nil {
		var it ItemSubst
		if len(d.Items) > 0 {
			it = d.Items[0]
		}
		switch {
		case d.HeaderDelta != 0 || d.ItemsDelta != 0:
			x.Reportf("C12.count-mismatch-accepted", "discovery", "Dial succeeded although the discovery reply had header count delta=%d items delta=%d", d.HeaderDelta, d.ItemsDelta)
		case it.Status != 0 && !(it.Status == 1 && reasonVal(it.Reason) == kmip.ResultReasonOperationNotSupported):
			// only "operation failed / operation not supported" means that the server lacks discovery (fallback to 1.0);
			// any other failed item must surface as an error carrying status, reason and message
			x.Reportf("C12.failure-returned-as-success", "discovery", "Dial succeeded (version %v) although the discovery item had status %v reason %v", w.client.Version(), statusVals[it.Status%len(statusVals)], reasonVal(it.Reason))
		case it.Status == 0 && (it.Payload == "absent" || it.Payload == "opaque" || (it.Payload == "other" && opCases[it.PayloadOp%len(opCases)].op != kmip.OperationDiscoverVersions) || it.Op == "absent" || it.Op == "unknown" || (it.Op == "other" && opCases[it.OtherOp%len(opCases)].op != kmip.OperationDiscoverVersions)):
			x.Reportf("C12.wrong-payload-type", "discovery", "Dial succeeded although the discovery reply carried op=%q payload=%q", it.Op, it.Payload)
		}
	}
	if !res.done {
		x.Reportf("C12.hang", "call", "the call has not returned at quiescence")
		return
	}
	countsOK := sc.Subst == nil || (sc.Subst.HeaderDelta == 0 && sc.Subst.ItemsDelta == 0)
	if sc.Signer != nil {
		// no panic (checked above) and a result or an error; a consistent, unfalsified server must be accepted
		consistent := !sc.Subst.violating() && !sc.Signer.NoLink && sc.Signer.SigLen > 0 && sc.Signer.BadAttr == 0 && sc.Signer.KeyShape == 0 &&
			((sc.Signer.Alg == 0 && sc.Signer.Key == 0) || ((sc.Signer.Alg == 1 || sc.Signer.Alg == 2) && sc.Signer.Key == 1))
		if res.err != nil && consistent {
			x.Reportf("C12.correct-response-rejected", "Signer", "Signer/Sign failed with %v although every response was conformant (alg=%d key=%d siglen=%d)", res.err, sc.Signer.Alg, sc.Signer.Key, sc.Signer.SigLen)
		}
		if res.err == nil {
			if _, ok := res.val.([]byte); !ok {
				x.Reportf("C12.wrong-payload-type", "Signer", "Sign returned (%T, nil)", res.val)
			}
		}
		return
	}
	if sc.Op >= 0 {
		oc := opCases[sc.Op]
		var it ItemSubst
		if sc.Subst != nil && len(sc.Subst.Items) > 0 {
			it = sc.Subst.Items[0]
		}
		if res.err == nil {
			want := reflect.TypeOf(oc.resp())
			got := reflect.TypeOf(res.val)
			switch {
			case res.val == nil || got != want || reflect.ValueOf(res.val).IsNil():
				x.Reportf("C12.wrong-payload-type", oc.name, "%s returned (%T, nil); want a non-nil %v", oc.name, res.val, want)
			case it.Status != 0:
				x.Reportf("C12.failure-returned-as-success", "status", "%s returned success although the item's status was %v", oc.name, statusVals[it.Status])
			case it.Op == "other" && opCases[it.OtherOp%len(opCases)].op != oc.op:
				// (a payload substituted under the *requested* operation code is indistinguishable on the wire when
				// both payloads have the same shape, so only the operation code the server states is judged)
				x.Reportf("C12.foreign-operation-as-success", "operation", "%s returned success although the response item was for operation %s", oc.name, opCases[it.OtherOp%len(opCases)].name)
			case !countsOK:
				x.Reportf("C12.count-mismatch-accepted", "counts", "%s returned success although header count delta=%d items delta=%d", oc.name, sc.Subst.HeaderDelta, sc.Subst.ItemsDelta)
			}
		} else {
			if !sc.Subst.violating() {
				x.Reportf("C12.correct-response-rejected", oc.name, "%s failed with %v although the response was conformant", oc.name, res.err)
			}
			// a failed item must be surfaced with status, reason and message
			if countsOK && it.Status != 0 && (it.Op == "" || it.Op == "absent" || it.Op == "other" && it.Payload == "absent") && len(sent) == 1 && it.Payload != "other" && it.Payload != "opaque" {
				checkErrCarries(x, oc.name, res.err, sent[0])
			}
		}
	} else if res.err == nil {
		if !countsOK {
			x.Reportf("C12.count-mismatch-accepted", "batch", "Batch returned %d items without error although header count delta=%d items delta=%d", len(res.vals), sc.Subst.HeaderDelta, sc.Subst.ItemsDelta)
		} else if len(res.vals) != len(sc.Batch) {
			x.Reportf("C12.count-mismatch-accepted", "batch-len", "Batch of %d returned %d items", len(sc.Batch), len(res.vals))
		} else {
			// Unwrap must surface failed items
			_, uerr := res.vals.Unwrap()
			anyFailed := false
			for i := range sc.Batch {
				if i < len(sent) && sent[i].status != kmip.ResultStatusSuccess {
					anyFailed = true
				}
			}
			if anyFailed && uerr == nil {
				x.Reportf("C12.failure-returned-as-success", "batch-unwrap", "BatchResult.Unwrap returned no error although an item failed")
			}
			// ... every one of them: each failed item's status, reason and message (the message names the item)
			if uerr != nil {
				for i := range sc.Batch {
					if i >= len(sent) || sent[i].status == kmip.ResultStatusSuccess {
						continue
					}
					if it := sent[i].item; (it.Op == "" || it.Op == "absent") && it.Payload == "absent" {
						checkErrCarries(x, fmt.Sprintf("Batch.Unwrap, failed item %d of %d", i, len(sc.Batch)), uerr, sent[i])
					}
				}
			}
		}
	}
}

func checkErrCarries(x *X, name string, err error, s c12Sent) {
	txt := err.Error()
	var missing []string
	if !strings.Contains(txt, ttlv.EnumStr(s.status)) {
		missing = append(missing, "status "+ttlv.EnumStr(s.status))
	}
	if s.reason != 0 && !strings.Contains(txt, ttlv.EnumStr(s.reason)) {
		missing = append(missing, "reason "+ttlv.EnumStr(s.reason))
	}
	if s.message != "" && !strings.Contains(txt, s.message) {
		missing = append(missing, "message "+s.message)
	}
	if len(missing) > 0 {
		x.Reportf("C12.error-loses-server-result", strings.Join(missingKinds(missing), "+"), "%s: error %q does not carry %v", name, txt, missing)
	}
}

func missingKinds(m []string) []string {
	var out []string
	for _, s := range m {
		out = append(out, strings.Fields(s)[0])
	}
	return out
}

// requestPayloadOf obtains the request payload the fluent API builds for an operation,
// by running the representative call against a capturing middleware-free path: the
// builders expose Build() through RequestPayload on their Executor; to stay independent
// of each builder's type we capture the payload with a one-shot client middleware.
func requestPayloadOf(c *kmipclient.Client, oi int) kmip.OperationPayload {
	switch opCases[oi%len(opCases)].op {
	case kmip.OperationGet:
		return c.Get("id").RequestPayload()
	case kmip.OperationDestroy:
		return c.Destroy("id").RequestPayload()
	case kmip.OperationRevoke:
		return c.Revoke("id").RequestPayload()
	case kmip.OperationArchive:
		return c.Archive("id").RequestPayload()
	case kmip.OperationLocate:
		return c.Locate().RequestPayload()
	case kmip.OperationGetAttributeList:
		return c.GetAttributeList("id").RequestPayload()
	case kmip.OperationObtainLease:
		return c.ObtainLease("id").RequestPayload()
	default:
		return c.Activate("id").RequestPayload()
	}
}

func init() {
	register(&Prop{
		ID: "C12", Engine: "client",
		Generate: genC12, Decode: decodeC12, Execute: execC12,
		Config:      func(any) simrt.Config { return simrt.Config{MaxSteps: 60000, IdleProbe: 5 * time.Second} },
		Runs:        clientRuns(250000, 10000000),
		Floors:      []Floor{{Name: "single-substitution", Count: func(t string) int { return len(c12Floor(t)) }, Scenario: func(t string, i int) any { return c12Floor(t)[i] }}},
		Rule:        "one evaluation = one simulated connection in which the scripted server answers one representative call of a fluent-API operation (27 call kinds + raw Request + batches, optionally preceded by the discovery exchange) with a response falsified by 0-3 substitutions (counts, item operation, status, reason, message, payload type/presence, ids); distinct = distinct event-log hashes among runs in which a substituted response was actually sent",
		Components:  clientComponents,
		Assumptions: []string{"degenerate schedule dimension: one caller, the byzantine peer is the injected fault (DESIGN §3 C12)", "rewriter is semantics-preserving"},
	})
}
