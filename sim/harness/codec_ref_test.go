package harness

import (
	"encoding/json"
	"fmt"
	"os"
	"os/exec"
	"strconv"
	"sync"
	"testing"
)

// TestCodecRef computes C20's reference results with one fresh process per corpus entry.
//
//	KMIPVERIF_REF_ALL=<out.json>            parent: spawns one child per entry (16 at a time), merges
//	KMIPVERIF_REF_ENTRY=<i> KMIPVERIF_REF_OUT=<file>   child: the operations of entry i only, from a cold process
func TestCodecRef(t *testing.T) {
	if out := os.Getenv("KMIPVERIF_REF_ALL"); out != "" {
		buildCorpus()
		n := len(corpus)
		ref := make([][][]byte, n)
		errs := make([]error, n)
		dir, err := os.MkdirTemp("", "codecref-")
		if err != nil {
			t.Fatal(err)
		}
		defer os.RemoveAll(dir)
		sem := make(chan struct{}, 16)
		var wg sync.WaitGroup
		for i := 0; i < n; i++ {
			wg.Add(1)
			sem <- struct{}{}
			go func(i int) {
				defer wg.Done()
				defer func() { <-sem }()
				f := fmt.Sprintf("%s/%d.json", dir, i)
				cmd := exec.Command(os.Args[0], "-test.run", "^TestCodecRef$")
				cmd.Env = append(os.Environ(), "KMIPVERIF_REF_ALL=", "KMIPVERIF_CODEC_REF=", "KMIPVERIF_REF_ENTRY="+strconv.Itoa(i), "KMIPVERIF_REF_OUT="+f)
				if b, err := cmd.CombinedOutput(); err != nil {
					errs[i] = fmt.Errorf("entry %d: %v: %s", i, err, b)
					return
				}
				raw, err := os.ReadFile(f)
				if err != nil {
					errs[i] = err
					return
				}
				errs[i] = json.Unmarshal(raw, &ref[i])
			}(i)
		}
		wg.Wait()
		for _, e := range errs {
			if e != nil {
				t.Fatal(e)
			}
		}
		b, _ := json.Marshal(ref)
		if err := os.WriteFile(out, b, 0o644); err != nil {
			t.Fatal(err)
		}
		return
	}
	es := os.Getenv("KMIPVERIF_REF_ENTRY")
	if es == "" {
		t.Skip()
	}
	i, _ := strconv.Atoi(es)
	buildCorpus()
	// the decode operations take the entry's own reference encodings as input
	codecRef = make([][]string, len(corpus))
	for k := range codecRef {
		codecRef[k] = make([]string, nCodecOps)
	}
	corpusOnce.Do(func() {})
	res := make([][]byte, nCodecOps)
	for op := 0; op < nCodecOps; op++ {
		r := codecOp(&corpus[i], op, nil)
		if !keepResult(&corpus[i], op, r) {
			r = ""
		}
		res[op] = []byte(r)
		codecRef[i][op] = r
	}
	b, _ := json.Marshal(res)
	if err := os.WriteFile(os.Getenv("KMIPVERIF_REF_OUT"), b, 0o644); err != nil {
		t.Fatal(err)
	}
}
