package harness

import (
	"encoding/json"
	"os"
	"testing"
)

// TestMeta writes the static description of a property's check for the driver.
func TestMeta(t *testing.T) {
	id := os.Getenv("KMIPVERIF_META")
	if id == "" {
		t.Skip()
	}
	p := Props[id]
	if p == nil {
		t.Fatalf("unknown property %q", id)
	}
	tier := os.Getenv("KMIPVERIF_META_TIER")
	m := map[string]any{"rule": p.Rule, "components": p.Components, "assumptions": p.Assumptions, "level": "exploration", "runs": p.Runs(tier)}
	fl := map[string]int{}
	sw := map[string]bool{}
	for _, f := range p.Floors {
		fl[f.Name] = f.Count(tier)
		sw[f.Name] = f.Sweep
	}
	m["floors"] = fl
	m["sweeps"] = sw
	b, _ := json.Marshal(m)
	if err := os.WriteFile(os.Getenv("KMIPVERIF_META_OUT"), b, 0o644); err != nil {
		t.Fatal(err)
	}
}

func TestListProps(t *testing.T) {
	for _, id := range PropIDs() {
		println("PROP " + id)
	}
}
