package harness

import (
	"crypto/sha256"
	"encoding/hex"
	"encoding/json"
	"fmt"
	"os"
	"os/exec"
	"path/filepath"
	"runtime"
	"runtime/debug"
	"sort"
	"strings"
	"testing"
	"time"

	"kmipverif/simrt"
)

// WorkerSpec is read from the file named by $KMIPVERIF_SPEC.
type WorkerSpec struct {
	Property    string  `json:"property"`
	Tier        string  `json:"tier"`
	Seed        uint64  `json:"seed"`
	Worker      int     `json:"worker"`
	NWorkers    int     `json:"nworkers"`
	Mode        string  `json:"mode"` // run | replay | dump
	ReplayFile  string  `json:"replay_file,omitempty"`
	Out         string  `json:"out"`
	Explore     int     `json:"explore"`    // total number of explore runs over all workers; -1 = property default
	DeadlineS   float64 `json:"deadline_s"` // wall-clock safety cap for this worker
	ReplayDir   string  `json:"replay_dir"`
	MaxFindings int     `json:"max_findings"`
	MinBudget   int     `json:"min_budget"`
	NoFloors    bool    `json:"no_floors,omitempty"`
	DumpRuns    int     `json:"dump_runs,omitempty"` // dump mode: number of runs whose full event logs are written
}

type Finding struct {
	Key        string `json:"key"`
	Rule       string `json:"rule"`
	Sig        string `json:"sig"`
	Detail     string `json:"detail"`
	ReplayPath string `json:"replay_path"`
	Count      int    `json:"count"`
	FirstRun   string `json:"first_run"`
	Size       int    `json:"size"`
	MinFailed  string `json:"min_failed,omitempty"`
}

type Sample struct {
	Run      string          `json:"run"`
	Scenario json.RawMessage `json:"scenario"`
	Events   []string        `json:"events"`
}

type WorkerResult struct {
	Property    string         `json:"property"`
	Worker      int            `json:"worker"`
	ExploreRuns int            `json:"explore_runs"`
	FloorRuns   map[string]int `json:"floor_runs"`
	SweepRuns   int            `json:"sweep_runs"`
	FloorsDone  bool           `json:"floors_done"`
	ExploreDone bool           `json:"explore_done"`
	Capped      int            `json:"capped"`
	ForeignRuns int            `json:"foreign_runs"`
	ForeignEx   []string       `json:"foreign_examples,omitempty"`
	Nontrivial  int            `json:"nontrivial"`
	Hashes      []uint64       `json:"hashes"`
	Pairs       []uint64       `json:"pairs"`
	Faults      map[string]int `json:"faults"`
	Probes      map[string]int `json:"probes"`
	SimSeconds  float64        `json:"sim_seconds"`
	Yields      int64          `json:"yields"`
	MaxYields   int64          `json:"max_yields"` // most yields seen in one run
	MaxSteps    int            `json:"max_steps"`
	MaxTasks    int            `json:"max_tasks"`
	Steps       int64          `json:"steps"`
	Findings    []*Finding     `json:"findings"`
	Samples     []Sample       `json:"samples"`
	WallS       float64        `json:"wall_s"`
	Replay      *ReplayResult  `json:"replay,omitempty"`
	MemAbort    string         `json:"mem_abort,omitempty"`
	// Unreproducible: violation keys seen in this worker process that did not show up when the same run was
	// replayed in a fresh process (count of such runs per key)
	Unreproducible map[string]int `json:"unreproducible,omitempty"`
}

type ReplayResult struct {
	Reproduced bool     `json:"reproduced"`
	SameHash   bool     `json:"same_hash"`
	Got        []string `json:"got"`
	Hash       string   `json:"hash"`
	Events     []string `json:"events,omitempty"`
}

type worker struct {
	t       *testing.T
	spec    WorkerSpec
	p       *Prop
	res     *WorkerResult
	hashes  map[uint64]struct{}
	pairs   map[uint64]struct{}
	finds   map[string]*Finding
	start   time.Time
	tick    int
	unrepro map[string]int
}

func (w *worker) timeUp() bool {
	if w.res.MemAbort != "" {
		return true
	}
	w.tick++
	if w.tick%64 == 0 {
		// a broken tree may make every run leak (hung tasks keep their buffers): never let a worker eat the machine
		var ms runtime.MemStats
		runtime.ReadMemStats(&ms)
		if ms.HeapAlloc > 1500<<20 {
			debug.FreeOSMemory()
			runtime.ReadMemStats(&ms)
			if ms.HeapAlloc > 1500<<20 {
				w.res.MemAbort = fmt.Sprintf("heap %d MiB after %d runs: remaining runs skipped", ms.HeapAlloc>>20, w.tick)
				return true
			}
		}
	}
	return w.spec.DeadlineS > 0 && time.Since(w.start).Seconds() > w.spec.DeadlineS
}

func (w *worker) account(label string, in RunInput, out RunOutput) {
	if out.Capped {
		w.res.Capped++
	}
	if len(out.Foreign) > 0 {
		w.res.ForeignRuns++
		if len(w.res.ForeignEx) < 5 {
			w.res.ForeignEx = append(w.res.ForeignEx, label+": "+strings.Join(out.Foreign, ", "))
		}
	}
	for k, v := range out.Faults {
		w.res.Faults[k] += v
	}
	for k, v := range out.Probes {
		w.res.Probes[k] += v
	}
	for k := range out.Pairs {
		w.pairs[k] = struct{}{}
	}
	w.res.SimSeconds += out.SimTime.Seconds()
	w.res.Yields += out.Yields
	if out.Yields > w.res.MaxYields {
		w.res.MaxYields = out.Yields
	}
	w.res.MaxSteps = max(w.res.MaxSteps, out.Steps)
	w.res.MaxTasks = max(w.res.MaxTasks, out.Tasks)
	w.res.Steps += int64(out.Steps)
	if out.Nontrivial {
		w.res.Nontrivial++
		w.hashes[out.EventHash] = struct{}{}
		if len(w.res.Samples) < 2 {
			ev := out.Events
			if len(ev) > 40 {
				ev = ev[:40]
			}
			w.res.Samples = append(w.res.Samples, Sample{Run: label, Scenario: out.Scenario, Events: ev})
		}
	}
	if out.Capped || len(out.Foreign) > 0 {
		return // neither pass nor violation
	}
	for _, v := range out.Violations {
		f := w.finds[v.Key()]
		if f != nil {
			f.Count++
			continue
		}
		if w.unrepro[v.Key()] >= 6 {
			w.unrepro[v.Key()]++ // already tried several witnesses of this key in fresh processes: stop spending time on it
			continue
		}
		if !w.freshReplay(replayInput(in, out), v.Key()) {
			// seen here, but not in a fresh process: this worker's process state is involved. Wait for a witness
			// that stands on its own (a later run may contain the whole history); report the key as unconfirmed meanwhile.
			w.unrepro[v.Key()]++
			w.res.Unreproducible = w.unrepro
			continue
		}
		f = &Finding{Key: v.Key(), Rule: v.Rule, Sig: v.Sig, Detail: v.Detail, Count: 1, FirstRun: label}
		w.finds[v.Key()] = f
		w.res.Findings = append(w.res.Findings, f)
		w.minimiseAndWrite(f, in, out, v, len(w.res.Findings) <= w.spec.MaxFindings)
	}
}

func replayInput(in RunInput, out RunOutput) RunInput {
	r := in
	r.Replay = true
	r.RunTape = out.RunTape
	r.Preempt = out.Preempt
	if out.GenTape != nil {
		r.GenTape = out.GenTape
		r.FromGen = true
		r.Scenario = nil
	} else {
		r.Scenario = out.Scenario
	}
	if in.SinglePre > 0 {
		// a sweep run replays as an ordinary replay with its one preemption listed
		r.SinglePre, r.SingleTask = in.SinglePre, in.SingleTask
	}
	return r
}

// freshReplay runs a replay input in a fresh child process (this test binary re-executed) and reports
// whether the violation key shows up there: state that earlier runs left behind in this worker process
// (package-level variables of the code under test) must not be what a reported violation depends on.
func (w *worker) freshReplay(rin RunInput, key string) bool {
	ok, _ := w.freshReplayHash(rin, key)
	return ok
}

// freshReplayHash re-executes a run in a fresh child process and returns whether the violation showed again and
// the event-log hash of that execution (the hash a later replay in yet another fresh process must match).
func (w *worker) freshReplayHash(rin RunInput, key string) (bool, string) {
	dir, err := os.MkdirTemp(filepath.Dir(w.spec.Out), "fresh-")
	if err != nil {
		return false, ""
	}
	defer os.RemoveAll(dir)
	rule, sig, _ := strings.Cut(key, "|")
	rf := ReplayFile{Property: w.p.ID, Input: rin, Expect: Expect{Rule: rule, Sig: sig}}
	b, _ := json.Marshal(rf)
	rfPath := filepath.Join(dir, "replay.json")
	if os.WriteFile(rfPath, b, 0o644) != nil {
		return false, ""
	}
	spec := WorkerSpec{Property: w.p.ID, Tier: w.spec.Tier, Mode: "replay", ReplayFile: rfPath, Out: filepath.Join(dir, "out.json")}
	sb, _ := json.Marshal(spec)
	specPath := filepath.Join(dir, "spec.json")
	if os.WriteFile(specPath, sb, 0o644) != nil {
		return false, ""
	}
	cmd := exec.Command(os.Args[0], "-test.run", "^TestWorker$", "-test.timeout", "5m")
	cmd.Env = append(os.Environ(), "KMIPVERIF_SPEC="+specPath)
	if err := cmd.Run(); err != nil {
		return false, ""
	}
	raw, err := os.ReadFile(spec.Out)
	if err != nil {
		return false, ""
	}
	var res WorkerResult
	if json.Unmarshal(raw, &res) != nil || res.Replay == nil {
		return false, ""
	}
	return res.Replay.Reproduced, res.Replay.Hash
}

func (w *worker) minimiseAndWrite(f *Finding, in RunInput, out RunOutput, v Violation, minimise bool) {
	rin := replayInput(in, out)
	chk := RunOne(w.t, w.p, rin)
	if !hasKey(chk.Violations, v.Key()) {
		f.MinFailed = fmt.Sprintf("immediate replay did not reproduce (got %v)", keys(chk.Violations))
		return
	}
	budget := w.spec.MinBudget
	if !minimise {
		budget = 0 // too many distinct findings in this worker: keep the recorded run as it is
	}
	best, st := Minimise(w.t, w.p, rin, v.Key(), budget)
	if budget > 0 && !w.freshReplay(best, v.Key()) {
		// the shrunk run only fails with what earlier runs left behind in this process: keep the recorded run,
		// which was confirmed in a fresh process before it was accepted as a witness
		best = rin
		st.GenAfter, st.RunAfter, st.PreAfter = len(rin.GenTape), len(rin.RunTape), len(rin.Preempt)
	}
	best.Trace = true
	fin := RunOne(w.t, w.p, best)
	if !hasKey(fin.Violations, v.Key()) {
		f.MinFailed = "minimised input did not reproduce"
		best = rin
		best.Trace = true
		fin = RunOne(w.t, w.p, best)
	}
	detail := v.Detail
	for _, fv := range fin.Violations {
		if fv.Key() == v.Key() {
			detail = fv.Detail
		}
	}
	f.Detail = detail
	best.Scenario = fin.Scenario // informational when FromGen
	// the event hash a replay has to match is the one of a fresh process, not of this long-lived worker (on a tree
	// that keeps process-wide state the two executions may differ in their yields although both show the violation)
	hash := fmt.Sprintf("%016x", fin.EventHash)
	if ok, fh := w.freshReplayHash(best, v.Key()); ok && fh != "" {
		hash = fh
	}
	rf := ReplayFile{Property: w.p.ID, Input: best, Seed: w.spec.Seed,
		Expect: Expect{Rule: v.Rule, Sig: v.Sig, EventHash: hash},
		Detail: detail, Events: lastN(fin.Events, 80), MinStats: st}
	h := sha256.Sum256([]byte(v.Key()))
	name := fmt.Sprintf("%s-%s-%s.json", w.p.ID, sanitize(v.Rule), hex.EncodeToString(h[:4]))
	path := filepath.Join(w.spec.ReplayDir, fmt.Sprintf("w%02d-%s", w.spec.Worker, name))
	b, _ := json.MarshalIndent(rf, "", " ")
	_ = os.MkdirAll(w.spec.ReplayDir, 0o755)
	if err := os.WriteFile(path, b, 0o644); err != nil {
		f.MinFailed = err.Error()
		return
	}
	f.ReplayPath = path
	f.Size = len(best.GenTape) + len(best.RunTape) + len(best.Preempt)
}

func lastN(ev []string, n int) []string {
	if len(ev) > n {
		return ev[len(ev)-n:]
	}
	return ev
}

func sanitize(s string) string {
	return strings.Map(func(r rune) rune {
		if (r >= 'a' && r <= 'z') || (r >= 'A' && r <= 'Z') || (r >= '0' && r <= '9') || r == '-' || r == '.' {
			return r
		}
		return '_'
	}, s)
}

func keys(vs []Violation) []string {
	var out []string
	for _, v := range vs {
		out = append(out, v.Key())
	}
	return out
}

func TestWorker(t *testing.T) {
	specPath := os.Getenv("KMIPVERIF_SPEC")
	if specPath == "" {
		t.Skip("no KMIPVERIF_SPEC")
	}
	raw, err := os.ReadFile(specPath)
	if err != nil {
		t.Fatal(err)
	}
	var spec WorkerSpec
	if err := json.Unmarshal(raw, &spec); err != nil {
		t.Fatal(err)
	}
	p := Props[spec.Property]
	if p == nil {
		t.Fatalf("unknown property %q", spec.Property)
	}
	if spec.NWorkers == 0 {
		spec.NWorkers = 1
	}
	if spec.MaxFindings == 0 {
		spec.MaxFindings = 6
	}
	if spec.MinBudget == 0 {
		spec.MinBudget = 400
	}
	w := &worker{t: t, spec: spec, p: p, start: time.Now(),
		res:    &WorkerResult{Property: spec.Property, Worker: spec.Worker, FloorRuns: map[string]int{}, Faults: map[string]int{}, Probes: map[string]int{}},
		hashes: map[uint64]struct{}{}, pairs: map[uint64]struct{}{}, finds: map[string]*Finding{}, unrepro: map[string]int{}}

	switch spec.Mode {
	case "replay":
		w.replay()
	case "dump":
		w.dump()
	default:
		w.run()
	}
	for h := range w.hashes {
		w.res.Hashes = append(w.res.Hashes, h)
	}
	sort.Slice(w.res.Hashes, func(i, j int) bool { return w.res.Hashes[i] < w.res.Hashes[j] })
	for h := range w.pairs {
		w.res.Pairs = append(w.res.Pairs, h)
	}
	sort.Slice(w.res.Pairs, func(i, j int) bool { return w.res.Pairs[i] < w.res.Pairs[j] })
	w.res.WallS = time.Since(w.start).Seconds()
	b, _ := json.Marshal(w.res)
	if err := os.WriteFile(spec.Out, b, 0o644); err != nil {
		t.Fatal(err)
	}
}

func (w *worker) run() {
	spec, p := w.spec, w.p
	// floors, partitioned over the workers
	if !spec.NoFloors {
		w.res.FloorsDone = true
		for _, fl := range p.Floors {
			n := fl.Count(spec.Tier)
			for i := spec.Worker; i < n; i += spec.NWorkers {
				if w.timeUp() {
					w.res.FloorsDone = false
					break
				}
				sc := fl.Scenario(spec.Tier, i)
				raw, _ := json.Marshal(sc)
				in := RunInput{Property: p.ID, Mode: "floor:" + fl.Name, Scenario: raw, Replay: true, Tier: spec.Tier}
				label := fmt.Sprintf("floor:%s/%d", fl.Name, i)
				out := RunOne(w.t, p, in)
				w.res.FloorRuns[fl.Name]++
				w.account(label, in, out)
				if fl.Sweep && !out.Capped {
					w.sweep(label, in, out)
				}
			}
		}
	} else {
		w.res.FloorsDone = true
	}
	total := spec.Explore
	if total < 0 {
		total = p.Runs(spec.Tier)
	}
	w.res.ExploreDone = true
	for i := spec.Worker; i < total; i += spec.NWorkers {
		if w.timeUp() {
			w.res.ExploreDone = false
			break
		}
		rs := simrt.Mix(simrt.Mix(spec.Seed, uint64(i)), hashStr(p.ID))
		in := RunInput{Property: p.ID, Mode: "explore", GenSeed: simrt.Mix(rs, 1), RunSeed: simrt.Mix(rs, 2), FromGen: true, Tier: spec.Tier}
		in.Strategy = StrategyFor(in.RunSeed)
		out := RunOne(w.t, p, in)
		w.res.ExploreRuns++
		w.account(fmt.Sprintf("explore/%d", i), in, out)
	}
}

// sweep runs every single-preemption schedule of a floor scenario.
func (w *worker) sweep(label string, in RunInput, base RunOutput) {
	y := base.Yields
	for yi := int64(1); yi <= y; yi++ {
		for task := 0; task < 4; task++ {
			if w.timeUp() {
				w.res.FloorsDone = false
				return
			}
			c := in
			c.SinglePre, c.SingleTask = yi, task
			out := RunOne(w.t, w.p, c)
			w.res.SweepRuns++
			w.account(fmt.Sprintf("%s/pre@%d>%d", label, yi, task), c, out)
			if len(out.Preempt) == 0 {
				break // nothing else was runnable at this yield: other task indices are identical
			}
		}
	}
}

func hashStr(s string) uint64 {
	h := uint64(14695981039346656037)
	for i := 0; i < len(s); i++ {
		h = (h ^ uint64(s[i])) * 1099511628211
	}
	return h
}

func (w *worker) replay() {
	raw, err := os.ReadFile(w.spec.ReplayFile)
	if err != nil {
		w.t.Fatal(err)
	}
	var rf ReplayFile
	if err := json.Unmarshal(raw, &rf); err != nil {
		w.t.Fatal(err)
	}
	in := rf.Input
	in.Trace = true
	if in.FromGen {
		in.Scenario = nil
	}
	out := RunOne(w.t, w.p, in)
	rr := &ReplayResult{Got: keys(out.Violations), Hash: fmt.Sprintf("%016x", out.EventHash), Events: lastN(out.Events, 60)}
	rr.Reproduced = hasKey(out.Violations, rf.Expect.Rule+"|"+rf.Expect.Sig)
	rr.SameHash = rr.Hash == rf.Expect.EventHash
	w.res.Replay = rr
}

// dump writes the full event logs of the first DumpRuns explore runs (determinism self-test).
func (w *worker) dump() {
	p, spec := w.p, w.spec
	var sb strings.Builder
	for i := 0; i < spec.DumpRuns; i++ {
		rs := simrt.Mix(simrt.Mix(spec.Seed, uint64(i)), hashStr(p.ID))
		in := RunInput{Property: p.ID, Mode: "explore", GenSeed: simrt.Mix(rs, 1), RunSeed: simrt.Mix(rs, 2), FromGen: true, Tier: spec.Tier, Trace: true}
		in.Strategy = StrategyFor(in.RunSeed)
		out := RunOne(w.t, p, in)
		fmt.Fprintf(&sb, "== run %d hash=%016x viol=%v\n%s\n", i, out.EventHash, keys(out.Violations), strings.Join(out.Events, "\n"))
		// the recorded tapes must replay to the same log
		rin := replayInput(in, out)
		rin.Trace = true
		o2 := RunOne(w.t, p, rin)
		if o2.EventHash != out.EventHash {
			fmt.Fprintf(&sb, "!! REPLAY-DIVERGES run %d: %016x vs %016x\n", i, out.EventHash, o2.EventHash)
		}
	}
	if err := os.WriteFile(spec.Out+".log", []byte(sb.String()), 0o644); err != nil {
		w.t.Fatal(err)
	}
}
