package harness

import (
	"context"
	"encoding/json"
	"errors"
	"fmt"
	"strings"
	"time"

	"kmipverif/simnet"
	"kmipverif/simrt"

	"github.com/ovh/kmip-go"
	"github.com/ovh/kmip-go/kmipserver"
	"github.com/ovh/kmip-go/ttlv"
)

// ---- C16: shutdown drains cleanly and connection hooks are paired

type C16Conn struct {
	Phase    string `json:"phase"` // idle | half | request | no-read | pipeline | gone | two
	Tok      string `json:"tok"`   // handler script of the request's single item (durations via sl/sL)
	DelayMs  int    `json:"delay_ms,omitempty"`
	Yields   int    `json:"yields,omitempty"`
	HookFail bool   `json:"hook_fail,omitempty"`
	// HookFailCtx: the failing connect hook hands back a (derived) context together with its error
	HookFailCtx bool `json:"hook_fail_ctx,omitempty"`
	// IdleMs: after connecting the client stays silent this long before it does anything (old connections)
	IdleMs int `json:"idle_ms,omitempty"`
	// Hello (TLS listener): "" the client completes the handshake | "silent" | "partial" | "garbage": it never does,
	// and stays connected until the server hangs up: no hook may run for it, and Shutdown must not wait for it
	// beyond the grace period
	Hello string `json:"hello,omitempty"`
}

type C16Sc struct {
	Conns          []C16Conn `json:"conns"`
	ShutdownMs     int       `json:"shutdown_ms"`
	ShutdownYields int       `json:"shutdown_yields"`
	Second         bool      `json:"second_shutdown,omitempty"`
	AcceptLatePM   int       `json:"accept_late_pm,omitempty"`
	Chunk          int       `json:"chunk,omitempty"`
	Capacity       int       `json:"capacity,omitempty"` // bounded pipes: a response to a client that does not read stays pending in Write
	// NoHooks: the server has no connect/terminate hook at all (everything else must hold all the same)
	NoHooks bool `json:"no_hooks,omitempty"`
	// ServeYields: the goroutine that calls Serve dallies this many scheduling points first, so that Shutdown may
	// begin, or have returned, before Serve starts: Serve must then return the shutdown error without serving anybody
	ServeYields int `json:"serve_yields,omitempty"`
	// TLS: the listener hands out (simulated) TLS connections
	TLS bool `json:"tls,omitempty"`
}

var c16Toks = []string{"ok", "ok", "y2,ok", "sl100,ok", "sL100,ok", "sl1000,ok", "sL1000,ok", "sl5000,ok", "sL5000,ok", "sl10000,cx,ok", "sL10000,ok", "et", "ps", "sl2000,et"}
var c16Phases = []string{"idle", "half", "request", "request", "request", "no-read", "no-read-2", "pipeline", "gone", "two"}

func genC16(g *simrt.Tape, tier string) any {
	sc := &C16Sc{}
	n := g.Draw(7)
	if tier == "thorough" {
		n = g.Draw(9)
	}
	for i := 0; i < n; i++ {
		c := C16Conn{Phase: c16Phases[g.Draw(len(c16Phases))], Tok: c16Toks[g.Draw(len(c16Toks))]}
		c.DelayMs = []int{0, 0, 0, 1, 50, 500, 2000}[g.Draw(7)]
		c.Yields = g.Draw(6)
		if g.Draw(5) == 0 {
			c.IdleMs = []int{1000, 9500, 12000, 31000, 61000}[g.Draw(5)]
		}
		c.HookFail = g.Draw(8) == 0
		c.HookFailCtx = c.HookFail && g.Draw(2) == 0
		sc.Conns = append(sc.Conns, c)
	}
	sc.ShutdownMs = []int{0, 0, 1, 50, 100, 500, 1000, 2000, 6000, 10000, 13000, 32000, 62000}[g.Draw(13)]
	sc.ShutdownYields = g.Draw(12)
	sc.Second = g.Draw(5) == 0
	if g.Draw(4) == 0 {
		sc.TLS = true
		for i := range sc.Conns {
			if g.Draw(3) == 0 {
				sc.Conns[i].Hello = []string{"silent", "partial", "garbage"}[g.Draw(3)]
			}
		}
	}
	sc.NoHooks = g.Draw(6) == 0
	if g.Draw(6) == 0 {
		sc.ServeYields = 1 + g.Draw(40)
	}
	if g.Draw(3) == 0 {
		sc.AcceptLatePM = 300
	}
	sc.Chunk = []int{simnet.ChunkMax, simnet.ChunkRandom}[g.Draw(2)]
	sc.Capacity = []int{0, 0, 16, 256}[g.Draw(4)]
	return sc
}

func decodeC16(raw json.RawMessage) (any, error) {
	sc := &C16Sc{}
	return sc, json.Unmarshal(raw, sc)
}

type c16Client struct {
	idx       int
	conn      *simnet.Conn
	connected bool
	refused   bool
	sent      int
	got       []*kmip.ResponseMessage
	closedAt  time.Duration // when the client closed (0 = still open at that time)
	closed    bool
	done      bool
	reading   bool
}

type hookRec struct {
	connectOK    int
	connectFail  int
	terminate    int
	terminateSeq int
	terminateAt  time.Duration
}

func execC16(x *X, scAny any) {
	sc := scAny.(*C16Sc)
	s := x.S
	w := newServerWorld(x)
	hooks := map[string]*hookRec{}
	hk := func(addr string) *hookRec {
		h := hooks[addr]
		if h == nil {
			h = &hookRec{}
			hooks[addr] = h
		}
		return h
	}
	if sc.NoHooks {
		for i := range sc.Conns {
			sc.Conns[i].HookFail = false // nothing can refuse a connection
		}
	}
	failAddr, failCtx := map[string]bool{}, map[string]bool{}
	for i, c := range sc.Conns {
		if c.HookFail {
			failAddr[fmt.Sprintf("k%d.s.peer", i)] = true
			failCtx[fmt.Sprintf("k%d.s.peer", i)] = c.HookFailCtx
		}
	}
	w.serveYields = sc.ServeYields
	w.tls = sc.TLS
	w.startServerWith(func(string) simnet.EP { return simnet.EP{Chunk: sc.Chunk, Capacity: sc.Capacity} }, sc.AcceptLatePM, func(srv *kmipserver.Server) {
		if sc.NoHooks {
			return
		}
		srv.WithConnectHook(func(ctx context.Context) (context.Context, error) {
			addr := kmipserver.RemoteAddr(ctx)
			simrt.Yield("connect-hook")
			if failAddr[addr] {
				hk(addr).connectFail++
				w.record(hEvent{Kind: "hook-connect-fail", ConnID: addr})
				s.Eventf("connect hook fails %s", addr)
				if failCtx[addr] {
					return context.WithValue(ctx, ctxMarkKey{}, "refused"), errors.New("connect hook refuses " + addr)
				}
				return nil, errors.New("connect hook refuses " + addr)
			}
			hk(addr).connectOK++
			w.record(hEvent{Kind: "hook-connect", ConnID: addr})
			s.Eventf("connect hook ok %s", addr)
			return ctx, nil
		}).WithTerminateHook(func(ctx context.Context) {
			addr := kmipserver.RemoteAddr(ctx)
			h := hk(addr)
			h.terminate++
			w.record(hEvent{Kind: "hook-terminate", ConnID: addr})
			h.terminateSeq = w.seq
			h.terminateAt = s.Now()
			s.Eventf("terminate hook %s", addr)
		})
	})

	clients := make([]*c16Client, len(sc.Conns))
	for i := range sc.Conns {
		i := i
		cs := sc.Conns[i]
		cl := &c16Client{idx: i}
		clients[i] = cl
		s.Spawn("client", func() {
			defer func() { cl.done = true }()
			if cs.DelayMs > 0 {
				s.Sleep(time.Duration(cs.DelayMs) * time.Millisecond)
			}
			for k := 0; k < cs.Yields; k++ {
				s.YieldNow("client-dally")
			}
			conn, err := w.ln.Dial(fmt.Sprintf("k%d", i), simnet.EP{Chunk: sc.Chunk, Capacity: sc.Capacity})
			if err != nil {
				cl.refused = true
				return
			}
			cl.conn = conn
			cl.connected = true
			if sc.TLS && cs.Hello == "" {
				_, _ = conn.Write([]byte(simnet.ClientHello))
			}
			if sc.TLS && cs.Hello != "" {
				s.Fault("tls-peer-" + cs.Hello)
				switch cs.Hello {
				case "partial":
					_, _ = conn.Write([]byte(simnet.ClientHello[:3]))
				case "garbage":
					_, _ = conn.Write([]byte("\x16\x03\x01 not a hello"))
				}
				buf := make([]byte, 64)
				for {
					if _, err := conn.Read(buf); err != nil {
						break
					}
				}
				cl.closed = true
				cl.closedAt = s.Now()
				_ = conn.Close()
				return
			}
			if cs.IdleMs > 0 {
				s.Sleep(time.Duration(cs.IdleMs) * time.Millisecond)
			}
			st := ttlv.NewStream(conn, 0)
			mk := func(n int) []byte {
				return ttlv.MarshalTTLV(buildRequest(&ReqSc{Version: 4, Items: []ItemSc{{Tok: cs.Tok}}}, fmt.Sprintf("k%d.r%d", i, n)))
			}
			closeNow := func() {
				cl.closed = true
				cl.closedAt = s.Now()
				_ = conn.Close()
			}
			readAll := func() {
				cl.reading = true
				for {
					var resp kmip.ResponseMessage
					if err := st.Recv(&resp); err != nil {
						break
					}
					cl.got = append(cl.got, &resp)
				}
				cl.reading = false
			}
			switch cs.Phase {
			case "idle":
				readAll()
			case "half":
				f := mk(0)
				_, _ = conn.Write(f[:len(f)/2])
				readAll()
			case "request":
				_, _ = conn.Write(mk(0))
				cl.sent = 1
				readAll()
			case "two":
				_, _ = conn.Write(mk(0))
				cl.sent = 1
				cl.reading = true
				var resp kmip.ResponseMessage
				if err := st.Recv(&resp); err == nil {
					cl.got = append(cl.got, &resp)
					_, _ = conn.Write(mk(1))
					cl.sent = 2
				}
				readAll()
			case "pipeline":
				_, _ = conn.Write(append(mk(0), mk(1)...))
				cl.sent = 2
				readAll()
			case "no-read", "no-read-2":
				_, _ = conn.Write(mk(0))
				cl.sent = 1
				if cs.Phase == "no-read-2" {
					// with bounded pipes the second response stays pending in the server's Write
					_, _ = conn.Write(mk(1))
					cl.sent = 2
				}
				s.WaitUntil("client-waits-for-peer-close", func() bool { return conn.PeerGone() || w.shutdownReturned })
			case "gone":
				_, _ = conn.Write(mk(0))
				cl.sent = 1
				for k := 0; k < cs.Yields; k++ {
					s.YieldNow("client-dally")
				}
			}
			closeNow()
		})
	}

	// state captured at the instant Shutdown returns
	var atReturn struct {
		taken        bool
		listenerOpen bool
		running      int
		aliveSig     string
		aliveFull    string
		aliveN       int
		seq          int
		at           time.Duration
	}
	var second struct {
		bad         bool
		detail, sig string
		seq         int
	}
	s.Spawn("shutdown", func() {
		if sc.ShutdownMs > 0 {
			s.Sleep(time.Duration(sc.ShutdownMs) * time.Millisecond)
		}
		for k := 0; k < sc.ShutdownYields; k++ {
			s.YieldNow("shutdown-dally")
		}
		if sc.Second {
			s.Spawn("shutdown2", func() {
				s.YieldNow("shutdown2-dally")
				_ = w.srv.Shutdown()
				// the statement holds for every call of Shutdown that returns
				if al := w.serverTasksAlive(); w.running != 0 || len(al) > 0 {
					sig, full := aliveSummary(al)
					second.bad = true
					second.detail = fmt.Sprintf("handlers running=%d, goroutines alive: %s", w.running, full)
					second.sig = sig
				}
				second.seq = w.seq
			})
		}
		w.shutdown()
		atReturn.taken = true
		atReturn.listenerOpen = !w.ln.IsClosed()
		atReturn.running = w.running
		al := w.serverTasksAlive()
		atReturn.aliveN = len(al)
		atReturn.aliveSig, atReturn.aliveFull = aliveSummary(al)
		atReturn.seq = w.seq
		atReturn.at = s.Now()
	})
	s.Run()
	x.CommonOracles("C16")
	if len(s.Result().Panics) > 0 {
		return
	}
	if !atReturn.taken {
		x.Reportf("C16.shutdown-hangs", "shutdown", "Shutdown has not returned at quiescence (handlers running: %d; server tasks: %s)", w.running, taskList(w.serverTasksAlive()))
		return
	}
	if second.bad {
		x.Reportf("C16.second-shutdown-returns-early", "second", "a second, concurrent Shutdown returned while the server was still draining: %s", second.detail)
	}
	if second.seq > 0 {
		for _, ev := range w.trace {
			if ev.Kind == "start" && ev.Seq > second.seq {
				x.Reportf("C16.handler-started-after-return", "late-handler-second", "handler %s started after the second Shutdown call had returned", ev.ID)
				break
			}
		}
	}
	if atReturn.listenerOpen {
		x.Reportf("C16.listener-open", "listener", "listener still open when Shutdown returned")
	}
	if !w.serveReturned {
		x.Reportf("C16.serve-not-returned", "serve", "Serve has not returned at final quiescence")
	} else if !errors.Is(w.serveErr, kmipserver.ErrShutdown) {
		x.Reportf("C16.serve-wrong-error", "serve", "Serve returned %v, want ErrShutdown", w.serveErr)
	}
	if atReturn.running != 0 {
		x.Reportf("C16.handler-running-at-return", "running", "%d handler(s) still running when Shutdown returned", atReturn.running)
	}
	for _, ev := range w.trace {
		if ev.Kind == "start" && ev.Seq > atReturn.seq {
			x.Reportf("C16.handler-started-after-return", "late-handler", "handler %s started after Shutdown had returned", ev.ID)
			break
		}
		if (ev.Kind == "hook-connect" || ev.Kind == "hook-connect-fail") && ev.Seq > atReturn.seq {
			x.Reportf("C16.connect-hook-after-return", "late-hook", "connect hook of %s ran after Shutdown had returned", ev.ConnID)
			break
		}
	}
	if atReturn.aliveN > 0 {
		x.Reportf("C16.goroutines-alive-at-return", atReturn.aliveSig, "%d per-connection goroutine(s) alive at the instant Shutdown returned: %s", atReturn.aliveN, atReturn.aliveFull)
	}
	if alive := w.serverTasksAlive(); len(alive) > 0 {
		sig, full := aliveSummary(alive)
		x.Reportf("C16.goroutines-alive-after-shutdown", sig, "%d per-connection goroutine(s) still alive at the quiescence after Shutdown: %s", len(alive), full)
	}
	// in-flight requests: completed and answered, or cancelled not earlier than the grace period
	grace := 3 * time.Second
	for _, ev := range w.trace {
		if ev.Kind != "ctxdone" {
			continue
		}
		ci := -1
		fmt.Sscanf(ev.ID, "k%d.", &ci)
		if ci < 0 || ci >= len(clients) {
			continue
		}
		cl := clients[ci]
		clientGone := cl.closed && cl.closedAt <= ev.At
		if !clientGone && ev.At < w.shutdownBegan+grace {
			x.Reportf("C16.cancelled-before-grace-period", "early-cancel", "handler %s saw its context cancelled at %v; shutdown began at %v and the client was still connected", ev.ID, ev.At, w.shutdownBegan)
			break
		}
	}
	started := map[string]hEvent{}
	ended := map[string]hEvent{}
	cancelled := map[string]bool{}
	for _, ev := range w.trace {
		switch ev.Kind {
		case "start":
			started[ev.ID] = ev
		case "end":
			ended[ev.ID] = ev
		case "ctxdone":
			cancelled[ev.ID] = true
		}
	}
	for id, st := range started {
		if _, ok := ended[id]; !ok {
			x.Reportf("C16.handler-never-ended", "handler", "handler %s started at %v and never returned", id, st.At)
			continue
		}
		if st.At > w.shutdownBegan || (st.At == w.shutdownBegan && st.Seq > atReturn.seq) {
			continue // not in flight when shutdown began
		}
		ci, ri := -1, -1
		fmt.Sscanf(id, "k%d.r%d.", &ci, &ri)
		if ci < 0 || ci >= len(clients) {
			continue
		}
		cl := clients[ci]
		cs := sc.Conns[ci]
		// the client stayed connected and kept reading until the very end, and the handler completed
		// before the grace period expired without being cancelled: its response must have arrived
		// ... unless the forced cancellation after the grace period can have hit the request on its way out (between
		// the handler's return and the write of the response): that is "cancelled after the grace period". It cannot
		// have happened when Shutdown itself returned before the grace period was over.
		if (cs.Phase == "request" || cs.Phase == "pipeline" || cs.Phase == "two") && !cancelled[id] && ended[id].At < w.shutdownBegan+grace && atReturn.at < w.shutdownBegan+grace && ri < cl.sent {
			if len(cl.got) <= ri {
				x.Reportf("C16.in-flight-response-lost", "response", "request %s was being handled when Shutdown began (handler %v..%v, shutdown at %v), the client stayed connected and reading, but got %d response(s)", id, st.At, ended[id].At, w.shutdownBegan, len(cl.got))
				break
			}
		}
	}
	// hooks
	for i := range sc.Conns {
		addr := fmt.Sprintf("k%d.s.peer", i)
		h := hooks[addr]
		if h == nil {
			continue
		}
		lastEnd := 0
		ran := 0
		for _, ev := range w.trace {
			if ev.ConnID == addr && (ev.Kind == "start" || ev.Kind == "end") {
				lastEnd = ev.Seq
				ran++
			}
		}
		switch {
		case h.connectOK+h.connectFail > 1:
			x.Reportf("C16.hook-pairing", "connect-twice", "connection %s: connect hook ran %d times", addr, h.connectOK+h.connectFail)
		case h.connectFail == 1 && h.terminate > 0:
			x.Reportf("C16.hook-pairing", "terminate-after-failed-connect", "connection %s: connect hook failed but terminate hook ran", addr)
		case h.connectFail == 1 && ran > 0:
			x.Reportf("C16.hook-pairing", "handled-after-failed-connect", "connection %s: connect hook failed but a request was handled", addr)
		case h.connectOK == 1 && h.terminate != 1:
			x.Reportf("C16.hook-pairing", fmt.Sprintf("terminate-x%d", h.terminate), "connection %s: connect hook succeeded, terminate hook ran %d times", addr, h.terminate)
		case h.connectOK == 1 && h.terminateSeq < lastEnd:
			x.Reportf("C16.hook-pairing", "terminate-before-last-handler", "connection %s: terminate hook ran before the last handler of the connection returned", addr)
		case h.connectOK == 0 && h.connectFail == 0 && (h.terminate > 0 || ran > 0):
			x.Reportf("C16.hook-pairing", "no-connect", "connection %s: terminate hook or handler without connect hook", addr)
		}
	}
	for _, cl := range clients {
		if !cl.done {
			x.Reportf("C16.client-hangs", "client", "client %d (%s) never saw its connection end after Shutdown", cl.idx, sc.Conns[cl.idx].Phase)
			break
		}
	}
	_ = strings.Join
}

func c16Floor(tier string) []*C16Sc {
	var out []*C16Sc
	// an old connection (idle for 9.5 s .. 61 s) with a request in flight when Shutdown begins
	for _, idle := range []int{9500, 12000, 31000, 61000} {
		for _, tok := range []string{"sL2000,ok", "sl2500,ok", "ok"} {
			out = append(out, &C16Sc{Conns: []C16Conn{{Phase: "request", Tok: tok, IdleMs: idle}, {Phase: "idle", Tok: "ok"}}, ShutdownMs: idle + 500})
		}
	}
	for _, ph := range []string{"idle", "half", "request", "no-read", "no-read-2", "pipeline", "gone", "two"} {
		for _, tok := range []string{"ok", "sl1000,ok", "sL1000,ok", "sl10000,cx,ok", "sL5000,ok"} {
			for _, ms := range []int{0, 500, 2000} {
				for _, hf := range []bool{false, true} {
					out = append(out, &C16Sc{Conns: []C16Conn{{Phase: ph, Tok: tok, HookFail: hf}, {Phase: "request", Tok: "ok", DelayMs: ms}}, ShutdownMs: 500})
					if hf {
						out = append(out, &C16Sc{Conns: []C16Conn{{Phase: ph, Tok: tok, HookFail: true, HookFailCtx: true}, {Phase: "request", Tok: "ok", DelayMs: ms}}, ShutdownMs: 500})
					}
					if ph == "no-read" || ph == "no-read-2" || ph == "pipeline" {
						out = append(out, &C16Sc{Conns: []C16Conn{{Phase: ph, Tok: tok, HookFail: hf}, {Phase: "request", Tok: "ok", DelayMs: ms}}, ShutdownMs: 500, Capacity: 16})
					}
				}
			}
		}
	}
	// a TLS listener: peers that never complete the handshake next to one with a request in flight, Shutdown at
	// several instants, with and without hooks
	for _, hello := range []string{"silent", "partial", "garbage"} {
		for _, tok := range []string{"ok", "sl1000,ok", "sL5000,ok"} {
			for _, ms := range []int{0, 100, 5000} {
				for _, nh := range []bool{false, true} {
					out = append(out, &C16Sc{TLS: true, NoHooks: nh, Conns: []C16Conn{{Phase: "idle", Hello: hello}, {Phase: "request", Tok: tok}, {Phase: "idle", Hello: hello, DelayMs: 50}}, ShutdownMs: ms})
				}
			}
		}
	}
	return out
}

func c16SweepFloor(tier string) []*C16Sc {
	out := []*C16Sc{{Conns: []C16Conn{{Phase: "request", Tok: "ok"}}, ShutdownYields: 1}}
	if tier == "thorough" {
		out = append(out, &C16Sc{Conns: []C16Conn{{Phase: "request", Tok: "y2,ok"}, {Phase: "idle"}}, ShutdownYields: 3},
			&C16Sc{Conns: []C16Conn{{Phase: "gone", Tok: "ok"}, {Phase: "request", Tok: "ok", Yields: 4}}, ShutdownYields: 2})
	}
	return out
}

func init() {
	register(&Prop{
		ID: "C16", Engine: "server",
		Generate: genC16, Decode: decodeC16, Execute: execC16,
		Config: func(any) simrt.Config {
			return simrt.Config{MaxSteps: 60000, IdleProbe: 4 * time.Second, ClockJumpPM: 10}
		},
		Runs: clientRuns(150000, 8000000),
		Floors: []Floor{
			{Name: "phase-x-handler-x-timing", Count: func(t string) int { return len(c16Floor(t)) }, Scenario: func(t string, i int) any { return c16Floor(t)[i] }},
			{Name: "single-preemption", Sweep: true, Count: func(t string) int { return len(c16SweepFloor(t)) }, Scenario: func(t string, i int) any { return c16SweepFloor(t)[i] }},
		},
		Rule:        "one evaluation = one simulated run of the real Server.Serve/Shutdown with connect/terminate hooks and 0-8 connections in generated phases (idle, half-sent request, handler running 0-10 s simulated with or without honouring ctx, response unread, pipelined, client gone, connecting late) and Shutdown called at a scheduler-chosen instant on the fake clock (optionally twice, optionally with accept-late); distinct = distinct event-log hashes among runs with at least one fault or preemption",
		Components:  serverComponents,
		Assumptions: []string{"'in flight' = the handler had started before Shutdown began", "only 'not earlier than 3 s' is asserted for forced cancellation", "rewriter is semantics-preserving"},
	})
}
