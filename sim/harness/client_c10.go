package harness

import (
	"encoding/json"
	"time"

	"kmipverif/simnet"
	"kmipverif/simrt"
)

// ---- C10: a client call only ever receives the response to its own request

func genCtx(g *simrt.Tape, cs *CallSc) {
	switch v := g.Draw(20); {
	case v < 9:
	case v < 13:
		cs.Ctx = "cancel"
		cs.CancelYields = g.Draw(14)
	case v < 15:
		cs.Ctx = "expire"
		cs.CancelYields = g.Draw(14)
	case v < 19:
		cs.Ctx = "timeout"
		cs.TimeoutMs = []int{1, 5, 20, 100, 500, 2000}[g.Draw(6)]
	default:
		cs.Ctx = "precancelled"
	}
}

func genBehav(g *simrt.Tape, closes bool) ReqBehav {
	b := ReqBehav{}
	b.DelayMs = []int{0, 0, 0, 1, 5, 20, 100, 500, 3000}[g.Draw(9)]
	b.Yields = []int{0, 0, 1, 3, 7}[g.Draw(5)]
	b.Notify = g.Draw(8) == 0
	b.NotifyBad = b.Notify && g.Draw(3) == 0
	if closes {
		switch g.Draw(12) {
		case 1:
			b.CloseAfter = true
		case 2:
			b.CloseBefore = true
		case 3:
			b.ResetAfter = true
		case 4:
			b.Partial = 1 + g.Draw(7)
		case 5:
			b.Partial = 1 + g.Draw(7)
			b.ResetAfter = true
		}
	}
	return b
}

func genC10(g *simrt.Tape, tier string) any {
	sc := &ClientSc{Prop: "C10", Enforce: g.Draw(8) != 1}
	nc := 1 + g.Draw(4)
	if tier == "thorough" {
		nc = 1 + g.Draw(5)
	}
	for c := 0; c < nc; c++ {
		var cs CallerSc
		n := 1 + g.Draw(4)
		for i := 0; i < n; i++ {
			call := CallSc{Kind: "request"}
			if g.Draw(4) == 1 {
				call.Kind = "batch"
				call.N = 2 + g.Draw(2)
			}
			genCtx(g, &call)
			call.Via = genVia(g)
			call.Bytes = g.Draw(3) == 0
			if g.Draw(10) == 0 {
				// another client of the same process (a clone) makes a call of its own in between
				call = CallSc{Kind: "clone"}
			}
			cs.Calls = append(cs.Calls, call)
		}
		sc.Callers = append(sc.Callers, cs)
	}
	sc.NestMw = g.Draw(5) == 0
	if g.Draw(5) == 0 {
		sc.TimeoutMwMs = []int{1, 5, 20, 100, 500, 3000}[g.Draw(6)]
	}
	sc.DefaultDialer = g.Draw(4) == 0
	sc.DialCtxCancelled = g.Draw(4) == 0
	closes := g.Draw(3) == 1
	nb := 1 + g.Draw(5)
	for i := 0; i < nb; i++ {
		sc.Behav = append(sc.Behav, genBehav(g, closes))
	}
	sc.Chunk = []int{simnet.ChunkMax, simnet.ChunkRandom, simnet.ChunkRandom}[g.Draw(3)]
	sc.FinalClose = true
	// writes that take a while (a stalled transport, bounded pipes): a request is "being written" for some time
	if g.Draw(3) == 0 {
		for i := 0; i < 3; i++ {
			sc.Conns = append(sc.Conns, ConnSc{Rates: map[string]int{"stall": 150 + g.Draw(400)}})
		}
	}
	if g.Draw(4) == 0 {
		sc.Capacity = []int{64, 256}[g.Draw(2)]
	}
	return sc
}

func decodeClientSc(raw json.RawMessage) (any, error) {
	sc := &ClientSc{}
	return sc, json.Unmarshal(raw, sc)
}

func execC10(x *X, scAny any) {
	sc := scAny.(*ClientSc)
	w := newClientWorld(x, sc)
	w.start()
	x.S.Run()
	w.tokenOracle("C10")
	w.finish()
}

// floors
var c10Behavs = [][]ReqBehav{{{}}, {{DelayMs: 5}}, {{Yields: 3}}, {{DelayMs: 5}, {}}, {{}, {Notify: true}, {Notify: true, Yields: 2}}, {{}, {Notify: true, NotifyBad: true}, {}, {}}}

func c10ObserveFloor(tier string) []*ClientSc {
	var out []*ClientSc
	for _, bh := range c10Behavs {
		for _, kind := range []string{"request", "batch"} {
			for k := 1; k <= 14; k++ {
				for _, cx := range []string{"observe", "observe-deadline"} {
					out = append(out, &ClientSc{Prop: "C10", Enforce: true, Behav: bh, FinalClose: true,
						Callers: []CallerSc{{Calls: []CallSc{{Kind: kind, N: 2, Ctx: cx, ObserveK: k}, {Kind: "request"}, {Kind: kind, N: 2}}}}})
				}
			}
		}
	}
	return out
}

// small fixed workloads for the single-preemption sweep
func c10SweepFloor(tier string) []*ClientSc {
	mk := func(cy int, bh []ReqBehav) *ClientSc {
		return &ClientSc{Prop: "C10", Enforce: true, Behav: bh, FinalClose: true, Callers: []CallerSc{
			{Calls: []CallSc{{Kind: "request", Ctx: "cancel", CancelYields: cy}, {Kind: "request"}}},
			{Calls: []CallSc{{Kind: "request"}, {Kind: "request"}}},
		}}
	}
	out := []*ClientSc{mk(2, []ReqBehav{{}}), mk(5, []ReqBehav{{Yields: 2}})}
	// one caller whose calls spawn nested calls from a middleware
	out = append(out, &ClientSc{Prop: "C10", Enforce: true, NestMw: true, Behav: []ReqBehav{{Yields: 2}}, FinalClose: true, Callers: []CallerSc{
		{Calls: []CallSc{{Kind: "request"}, {Kind: "request", Via: "roundtrip"}, {Kind: "request"}}}}})
	// the same two-caller workload through the other public entry points
	for _, via := range []string{"roundtrip", "exec"} {
		out = append(out, &ClientSc{Prop: "C10", Enforce: true, Behav: []ReqBehav{{Yields: 2}}, FinalClose: true, Callers: []CallerSc{
			{Calls: []CallSc{{Kind: "request", Via: via}, {Kind: "request", Via: via}}},
			{Calls: []CallSc{{Kind: "request", Via: via}, {Kind: "request"}}},
		}})
	}
	// responses that carry byte strings, through every entry point, single and batched, by one caller after the other
	// and by two at once: what a call was given is still what it holds when the run ends
	for _, via := range []string{"", "roundtrip", "exec"} {
		out = append(out, &ClientSc{Prop: "C10", Enforce: true, Behav: []ReqBehav{{Yields: 1}}, FinalClose: true, Callers: []CallerSc{
			{Calls: []CallSc{{Kind: "request", Via: via, Bytes: true}, {Kind: "request", Via: via, Bytes: true}, {Kind: "batch", N: 2, Bytes: true}}},
			{Calls: []CallSc{{Kind: "batch", N: 3, Via: via, Bytes: true}, {Kind: "request", Bytes: true}}},
		}})
		out = append(out, &ClientSc{Prop: "C10", Enforce: true, NestMw: true, FinalClose: true, Callers: []CallerSc{
			{Calls: []CallSc{{Kind: "request", Via: via, Bytes: true}, {Kind: "request", Via: via, Bytes: true}}}}})
	}
	if tier == "thorough" {
		for cy := 0; cy < 12; cy++ {
			out = append(out, mk(cy, []ReqBehav{{Yields: cy % 4}}), mk(cy, []ReqBehav{{DelayMs: 5}, {}}))
		}
	}
	return out
}

func clientRuns(quick, thorough int) func(string) int {
	return func(tier string) int {
		if tier == "thorough" {
			return thorough
		}
		return quick
	}
}

var clientComponents = map[string][]string{
	"real": {"kmipclient (Client, conn, readloop/writeloop, reconnect, negotiation, Executor builders)", "ttlv.Stream and codec", "kmip, payloads"},
	"stub": {"network (simnet dialer/conn)", "server peer (scripted task using the real ttlv.Stream)", "clock (synctest)", "TLS (absent)", "logger (discard)"},
}

func init() {
	register(&Prop{
		ID: "C10", Engine: "client",
		Generate: genC10, Decode: decodeClientSc, Execute: execC10,
		Config: func(any) simrt.Config {
			return simrt.Config{MaxSteps: 60000, IdleProbe: 5 * time.Second, ClockJumpPM: 15}
		},
		Runs: clientRuns(250000, 10000000),
		Floors: []Floor{
			{Name: "ctx-observation", Count: func(t string) int { return len(c10ObserveFloor(t)) }, Scenario: func(t string, i int) any { return c10ObserveFloor(t)[i] }},
			{Name: "single-preemption", Sweep: true, Count: func(t string) int { return len(c10SweepFloor(t)) }, Scenario: func(t string, i int) any { return c10SweepFloor(t)[i] }},
		},
		Rule:        "one evaluation = one simulated run of N caller tasks sharing one real kmipclient.Client against a scripted echo server (unique token per request item); distinct = distinct event-log hashes (sequence of task@sync-point hand-offs, faults, call results) among runs with at least one fault (cancel, timeout, server delay/close, chunked read) or preemption",
		Components:  clientComponents,
		Assumptions: []string{"rewriter is semantics-preserving (pass-through run of the repository's tests)", "simnet fault list = DESIGN §2.5", "timeouts fire only at idle points of the simulation (timer goroutines run when every task is blocked); cancellation at arbitrary yields is covered by canceller tasks and the observation-count floor"},
	})
}
