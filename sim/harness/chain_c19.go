package harness

import (
	"context"
	"encoding/json"
	"errors"
	"fmt"
	"io"
	"net"
	"sort"
	"strings"
	"time"

	"kmipverif/simnet"
	"kmipverif/simrt"

	"github.com/ovh/kmip-go"
	"github.com/ovh/kmip-go/kmipclient"
	"github.com/ovh/kmip-go/kmipserver"
	"github.com/ovh/kmip-go/payloads"
)

// ---- C19: middleware chains run in order and are re-entrant

type StageSc struct {
	Calls   int    `json:"calls"`             // how many times the stage calls the continuation (0..3)
	Replace bool   `json:"replace,omitempty"` // hands a replaced message / batch item on (marker in the item token)
	Wrap    bool   `json:"wrap,omitempty"`    // hands a wrapped context on (marker value)
	Ret     string `json:"ret,omitempty"`     // "" last result | first | fab (fabricated result) | err ((nil, err)) | both (the last response AND an error of its own)
	Yield   bool   `json:"yield,omitempty"`
	// CtxDone: the stage hands an already cancelled context on (the remainder of the chain still runs: only the
	// client transport at the very end looks at the context). Detach: it hands on a context that can no longer be
	// cancelled (context.WithoutCancel)
	// OtherOp (with Replace, batch-item chain): the substituted batch item is of the *other* routed operation
	// (Activate <-> Revoke): the core has to dispatch on the item it is handed, not on the one that entered the chain
	OtherOp bool `json:"other_op,omitempty"`
	CtxDone bool `json:"ctx_done,omitempty"`
	Detach  bool `json:"detach,omitempty"`
	// Parallel: the stage issues its continuation calls concurrently (hedging / fan-out) and waits for all of them
	Parallel bool `json:"parallel,omitempty"`
	// Stock: the stage is one of the library's own middlewares (transparent for the model):
	// timeout | timeout0 | correlation | debug
	Stock string `json:"stock,omitempty"`
}

type C19Sc struct {
	Driver   string    `json:"driver"` // client | server-msg | server-item
	Stages   []StageSc `json:"stages"`
	Requests int       `json:"requests"` // concurrent requests sharing the chain (1..3)
	// Cut: 0 = the whole list is registered in one call; k >= 1 = stages[:k] in a first call, the rest in a second
	// (both from one caller-owned slice with spare capacity)
	Cut int `json:"cut,omitempty"`
	// Sibling: a second executor / client configured from the same common list plus one stage of its own that must
	// never run for this chain's requests. 1 = configured after this chain, 2 = before
	Sibling int `json:"sibling,omitempty"`
	// Late (server drivers, with Cut): the second registration call happens after the executor has already served a
	// request; the requests under test come afterwards and must see the whole chain
	Late bool `json:"late,omitempty"`
	// CorePanic (batch-item chain): the operation handler panics on every execution. The executor turns the panic into
	// a failed item, and that failed item is the result the innermost stage receives from its continuation
	CorePanic bool `json:"core_panic,omitempty"`
	// CoreCritical (server drivers): the request item carries a message extension marked critical. The core refuses
	// such an item (a failed item, no operation handler), and that refusal is what the innermost stage receives from
	// its continuation, every time it calls it: an optional element of the item does not take the chain away
	CoreCritical bool `json:"core_critical,omitempty"`
	// ClosedClient (client driver): the client has been closed before the requests are made. The chain runs all the
	// same; the transport, innermost, is what fails
	ClosedClient bool `json:"closed_client,omitempty"`
	// Rejected (batch-item chain): the request travels under a protocol version the executor does not support: 1 with
	// an ordinary item, 2 with a lone Discover Versions item. The message-level core rejects such a request as a
	// whole: no stage of the batch-item chain is entered, no handler runs, the answer is a failed item
	Rejected int `json:"rejected,omitempty"`
	// Option (server drivers): the Batch Error Continuation Option in the header of the (single-item) requests:
	// 0 unset, 1 Continue, 2 Stop. With one item there is nothing to stop or continue: the chain runs the same
	Option int `json:"option,omitempty"`
	// Behav (client driver): what the scripted server does with the k-th request it reads (cycled): it may close the
	// connection instead of replying (closing after a reply is left to C11: whether the next call then fails on its
	// write or re-dials depends on which of the two notices first, and a failing transport is a different chain result). The client transport, innermost in the chain, then
	// re-dials and sends again on its own; no two consecutive entries are faulty, so every execution of the transport
	// ends with a response and the stages outside it must not notice anything
	Behav []ReqBehav `json:"behav,omitempty"`
}

func genStage(g *simrt.Tape) StageSc {
	st := StageSc{Calls: []int{1, 1, 1, 0, 2, 2, 3}[g.Draw(7)], Replace: g.Draw(3) == 0, Wrap: g.Draw(3) == 0, Yield: g.Draw(3) == 0}
	st.Ret = []string{"", "", "", "first", "fab", "err", "both"}[g.Draw(7)]
	st.Parallel = st.Calls >= 2 && g.Draw(3) == 0
	st.OtherOp = st.Replace && g.Draw(2) == 0
	st.CtxDone = g.Draw(8) == 0
	st.Detach = g.Draw(8) == 0
	return st
}

func genC19(g *simrt.Tape, tier string) any {
	sc := &C19Sc{Driver: []string{"client", "server-msg", "server-item"}[g.Draw(3)], Requests: 1 + g.Draw(3)}
	n := g.Draw(5)
	for i := 0; i < n; i++ {
		sc.Stages = append(sc.Stages, genStage(g))
	}
	// the library's own middlewares, mixed into the chain
	anyBoth := false
	for _, st := range sc.Stages {
		anyBoth = anyBoth || st.Ret == "both"
	}
	// (the server's stock DebugMiddleware is a stage with a behaviour of its own when its successor returns a response
	// together with an error: it keeps only the error. It is therefore not mixed into chains with such stages.)
	if sc.Driver != "server-item" && !(sc.Driver == "server-msg" && anyBoth) {
		for k, m := 0, g.Draw(3); k < m; k++ {
			st := StageSc{Stock: []string{"timeout", "timeout", "correlation", "debug", "timeout0"}[g.Draw(5)]}
			if sc.Driver == "server-msg" {
				st.Stock = "debug"
			}
			pos := g.Draw(len(sc.Stages) + 1)
			sc.Stages = append(sc.Stages[:pos], append([]StageSc{st}, sc.Stages[pos:]...)...)
		}
	}
	guardClientChain(sc)
	if len(sc.Stages) > 0 && g.Draw(3) == 0 {
		sc.Cut = 1 + g.Draw(len(sc.Stages))
	}
	if g.Draw(4) == 0 {
		sc.Sibling = 1 + g.Draw(2)
	}
	sc.Late = sc.Cut > 0 && sc.Driver != "client" && g.Draw(2) == 0
	sc.CorePanic = sc.Driver == "server-item" && g.Draw(6) == 0
	sc.CoreCritical = sc.Driver != "client" && !sc.CorePanic && g.Draw(6) == 0
	if sc.Driver == "server-item" && !sc.CorePanic && !sc.CoreCritical && g.Draw(8) == 0 {
		sc.Rejected = 1 + g.Draw(2)
	}
	if sc.Driver != "client" {
		sc.Option = g.Draw(3)
	}
	if sc.Driver == "client" && g.Draw(8) == 0 {
		sc.ClosedClient = true
	}
	if sc.Driver == "client" && !sc.ClosedClient && g.Draw(3) == 0 {
		n := 2 + g.Draw(4)
		sc.Behav = make([]ReqBehav, n)
		for i := 0; i < n; i++ {
			prevFaulty := i > 0 && sc.Behav[i-1] != (ReqBehav{})
			if prevFaulty || i == n-1 && sc.Behav[0] != (ReqBehav{}) {
				continue
			}
			sc.Behav[i].CloseBefore = g.Draw(2) == 0
		}
	}
	return sc
}

// guardClientChain: what the client transport does with a cancelled context is not the chain's business (C10/C11
// look at that). A client chain in which some stage hands a cancelled context on therefore ends with a stage that
// detaches it again, so that the transport always sees a live context and the model needs no opinion.
func guardClientChain(sc *C19Sc) {
	if sc.Driver != "client" {
		return
	}
	for _, st := range sc.Stages {
		if st.CtxDone {
			sc.Stages = append(sc.Stages, StageSc{Calls: 1, Detach: true})
			return
		}
	}
}

// programStages returns the generated (non-stock) stages; their position in this list is their label.
func programStages(all []StageSc) []StageSc {
	var out []StageSc
	for _, st := range all {
		if st.Stock == "" {
			out = append(out, st)
		}
	}
	return out
}

func decodeC19(raw json.RawMessage) (any, error) {
	sc := &C19Sc{}
	return sc, json.Unmarshal(raw, sc)
}

// the 9-behaviour alphabet of the floor
var c19Alphabet = []StageSc{
	{Calls: 1}, {Calls: 0, Ret: "fab"}, {Calls: 0, Ret: "err"}, {Calls: 2}, {Calls: 3, Ret: "first"}, {Calls: 2, Parallel: true},
	{Calls: 1, Replace: true}, {Calls: 1, Wrap: true}, {Calls: 2, Replace: true, Wrap: true}, {Calls: 1, Ret: "err"}, {Calls: 1, CtxDone: true}, {Calls: 1, Detach: true}, {Calls: 2, Replace: true, OtherOp: true}, {Calls: 1, Ret: "both"},
}

func c19Floor(tier string) []*C19Sc {
	var out []*C19Sc
	maxLen := 2
	if tier == "thorough" {
		maxLen = 3
	}
	// a closed client under short chains (pass-through, short-circuit, retry, replacing stages)
	for _, st := range [][]StageSc{nil, {{Calls: 1}}, {{Calls: 0}}, {{Calls: 2}}, {{Calls: 1}, {Calls: 0}}, {{Calls: 1, Replace: true}, {Calls: 1, Wrap: true}}, {{Calls: 1, Ret: "err"}}, {{Stock: "timeout"}, {Calls: 1}}, {{Stock: "debug"}, {Calls: 2}}} {
		out = append(out, &C19Sc{Driver: "client", Stages: st, Requests: 1 + len(st)%2, ClosedClient: true})
	}
	// the client transport re-dialling and re-sending under one- and two-stage chains
	for _, bh := range [][]ReqBehav{{{CloseBefore: true}, {}}, {{}, {CloseBefore: true}}, {{}, {}, {CloseBefore: true}}} {
		for _, st := range [][]StageSc{nil, {{Calls: 1}}, {{Calls: 2}}, {{Calls: 1}, {Calls: 1, Replace: true}}, {{Calls: 2}, {Calls: 1, Wrap: true}}, {{Stock: "timeout"}, {Calls: 1}}} {
			out = append(out, &C19Sc{Driver: "client", Stages: st, Requests: 1 + len(st)%2, Behav: bh})
		}
	}
	for _, d := range []string{"client", "server-msg", "server-item"} {
		var rec func(prefix []StageSc, l int)
		rec = func(prefix []StageSc, l int) {
			fsc := &C19Sc{Driver: d, Stages: append([]StageSc{}, prefix...), Requests: 1}
			guardClientChain(fsc)
			out = append(out, fsc)
			if d == "server-item" && l <= 2 {
				out = append(out, &C19Sc{Driver: d, Stages: append([]StageSc{}, prefix...), Requests: 1, CorePanic: true})
				out = append(out, &C19Sc{Driver: d, Stages: append([]StageSc{}, prefix...), Requests: 1, CorePanic: true, Option: 2})
				out = append(out, &C19Sc{Driver: d, Stages: append([]StageSc{}, prefix...), Requests: 1, CoreCritical: true, Option: l % 3})
				if d == "server-item" {
					out = append(out, &C19Sc{Driver: d, Stages: append([]StageSc{}, prefix...), Requests: 1, Rejected: 1 + l%2})
				}
				out = append(out, &C19Sc{Driver: d, Stages: append([]StageSc{}, prefix...), Requests: 2, Option: 1 + l%2})
			}
			if l == maxLen {
				return
			}
			for _, a := range c19Alphabet {
				rec(append(prefix, a), l+1)
			}
		}
		rec(nil, 0)
		// registration plans: every cut of every 1-3 stage pass-through/retry chain, with and without a sibling
		for n := 1; n <= 3; n++ {
			for cut := 0; cut <= n; cut++ {
				for sib := 0; sib <= 2; sib++ {
					st := make([]StageSc, n)
					for i := range st {
						st[i] = StageSc{Calls: 1 + i%2}
					}
					out = append(out, &C19Sc{Driver: d, Stages: st, Requests: 1, Cut: cut, Sibling: sib})
					if cut > 0 && d != "client" {
						out = append(out, &C19Sc{Driver: d, Stages: st, Requests: 2, Cut: cut, Sibling: sib, Late: true})
					}
				}
			}
		}
	}
	return out
}

// ---- reference model: a recursive interpreter of the statement (DESIGN Appendix C)

type chainModel struct {
	stages []StageSc
	trace  []string
	// echoCCV: the core echoes the correlation value of the message it is handed in its response header (server message chain)
	echoCCV bool
	// panicIn: when not empty the core panics; the value is the request name the panic message mentions
	panicIn string
	// closed: the client is closed: the transport fails without reaching the server
	closed bool
	// critical: the core refuses the item (critical message extension)
	critical  bool
	itemChain bool
}

// markDone tells whether a context with this marker is cancelled: "!" marks a cancellation, "+" a detachment.
func markDone(mark string) bool {
	return strings.LastIndexByte(mark, '!') > strings.LastIndexByte(mark, '+')
}

// handDown computes the marker of the context a stage hands on.
func handDown(st StageSc, mark string, i, k int) string {
	if st.Wrap {
		mark = fmt.Sprintf("%s/s%dc%d", mark, i, k)
	}
	if st.CtxDone {
		mark += "!"
	}
	if st.Detach {
		mark += "+"
	}
	return mark
}

// run returns the identity of the result and whether it is an error.
func (m *chainModel) run(i int, ctxMark, msgMark string) (string, bool) {
	if i == len(m.stages) && m.closed {
		return "closed-client", true
	}
	if i == len(m.stages) {
		m.trace = append(m.trace, fmt.Sprintf("core ctx=%s msg=%s", ctxMark, msgMark))
		if m.critical && m.itemChain {
			// (inside the batch-item chain the refusal travels as an error next to the empty item; the executor
			// merges the two once the chain has returned)
			return "other+critical-extension", true
		}
		if m.critical {
			return "failed:critical-extension", false
		}
		if m.panicIn != "" {
			return "failed:panic(string) in " + m.panicIn + msgMark, false // a failed item, not an error
		}
		if m.echoCCV && msgMark != "" {
			return "core:" + msgMark + "#ccv" + msgMark[strings.LastIndexByte(msgMark, '~'):], false
		}
		return "core:" + msgMark, false
	}
	st := m.stages[i]
	m.trace = append(m.trace, fmt.Sprintf("enter s%d ctx=%s msg=%s", i, ctxMark, msgMark))
	var results []string
	var errs []bool
	for k := 0; k < st.Calls; k++ {
		c, mm := handDown(st, ctxMark, i, k), msgMark
		if st.Replace {
			mm = fmt.Sprintf("%s~s%dc%d", msgMark, i, k)
		}
		r, e := m.run(i+1, c, mm)
		m.trace = append(m.trace, fmt.Sprintf("s%d got %s err=%v", i, r, e))
		results = append(results, r)
		errs = append(errs, e)
	}
	switch {
	case st.Ret == "err":
		return fmt.Sprintf("err%d", i), true
	case st.Ret == "both" && st.Calls > 0:
		// the response of the last call together with an error of the stage's own
		last, lastErr := results[len(results)-1], errs[len(errs)-1]
		if rp := respPart(last, lastErr); rp != "" {
			return rp + "+" + fmt.Sprintf("both%d", i), true
		}
		return fmt.Sprintf("both%d", i), true
	case st.Ret == "fab" || st.Calls == 0:
		return fmt.Sprintf("fab%d", i), false
	case st.Ret == "first":
		return results[0], errs[0]
	default:
		return results[len(results)-1], errs[len(errs)-1]
	}
}

// A result is named "<response>" (no error), "<error>" (error only) or "<response>+<error>" (both).
func respPart(id string, isErr bool) string {
	if !isErr {
		return id
	}
	if k := strings.IndexByte(id, '+'); k >= 0 {
		return id[:k]
	}
	return ""
}

func errPart(id string) string {
	if k := strings.IndexByte(id, '+'); k >= 0 {
		return id[k+1:]
	}
	return id
}

// pairIdentity names what a continuation handed back.
func pairIdentity(respID string, hasResp bool, err error) string {
	if err == nil {
		return respID
	}
	msg := err.Error()
	if errors.Is(err, net.ErrClosed) {
		msg = "closed-client" // (the wording and wrapping are the library's business)
	}
	var ke kmipserver.Error
	if errors.As(err, &ke) && ke.Reason == kmip.ResultReasonFeatureNotSupported {
		msg = "critical-extension" // (the library's wording is its own business)
	}
	if hasResp {
		return respID + "+" + msg
	}
	return msg
}

// ---- the real chains, instrumented stage programs

type chainRun struct {
	w      *serverWorld
	s      *simrt.Sim
	sc     *C19Sc
	traces map[string][]string // per request
}

// realHandDown builds the context a stage hands on (the counterpart of handDown).
func realHandDown(ctx context.Context, st StageSc, cm string, i, k int) context.Context {
	mark := handDown(st, cm, i, k)
	if mark == cm {
		return ctx
	}
	c := context.WithValue(ctx, ctxMarkKey{}, mark)
	if st.CtxDone {
		cc, cancel := context.WithCancel(c)
		cancel()
		c = cc
	}
	if st.Detach {
		c = context.WithoutCancel(c)
	}
	return c
}

func (cr *chainRun) rec(req, ev string) { cr.traces[req] = append(cr.traces[req], ev) }

func markerOfToken(tok string) (req, msgMark string) {
	id := tokenID(tok)
	req = id
	if i := strings.IndexByte(id, '~'); i >= 0 {
		req, msgMark = id[:i], id[i:]
	}
	return req, msgMark
}

func ctxMarkOf(ctx context.Context) string {
	m, _ := ctx.Value(ctxMarkKey{}).(string)
	return m
}

func withMsgMark(tok, mark string) string {
	id := tokenID(tok)
	rest := strings.TrimPrefix(tok, id)
	return id + mark + rest
}

func cloneReqWithMark(msg *kmip.RequestMessage, mark string) *kmip.RequestMessage {
	cp := *msg
	// the replacement differs in its header too: the executor answers in terms of the message it is handed
	// (the correlation value is echoed in the response header)
	cp.Header.ClientCorrelationValue = "ccv" + mark
	cp.BatchItem = make([]kmip.RequestBatchItem, len(msg.BatchItem))
	for i, bi := range msg.BatchItem {
		cp.BatchItem[i] = bi
		if p, ok := bi.RequestPayload.(*payloads.ActivateRequestPayload); ok {
			cp.BatchItem[i].RequestPayload = &payloads.ActivateRequestPayload{UniqueIdentifier: withMsgMark(p.UniqueIdentifier, mark)}
		}
	}
	return &cp
}

func reqTokenOf(msg *kmip.RequestMessage) string {
	if msg == nil || len(msg.BatchItem) == 0 {
		return "?"
	}
	if p, ok := msg.BatchItem[0].RequestPayload.(*payloads.ActivateRequestPayload); ok {
		return p.UniqueIdentifier
	}
	return "?"
}

// respIdentity names a response: which core execution produced it, or which stage fabricated it.
func respIdentity(resp *kmip.ResponseMessage) string {
	if resp == nil {
		return "nil"
	}
	if len(resp.BatchItem) == 1 {
		bi := resp.BatchItem[0]
		if strings.HasPrefix(bi.ResultMessage, "fab") {
			return bi.ResultMessage
		}
		if p, ok := bi.ResponsePayload.(*payloads.ActivateResponsePayload); ok {
			_, mm := markerOfToken(p.UniqueIdentifier)
			if resp.Header.ClientCorrelationValue != "" {
				return "core:" + mm + "#" + resp.Header.ClientCorrelationValue
			}
			return "core:" + mm
		}
		if bi.ResultStatus != kmip.ResultStatusSuccess && bi.ResultReason == kmip.ResultReasonFeatureNotSupported {
			return "failed:critical-extension"
		}
		if bi.ResultStatus != kmip.ResultStatusSuccess {
			return "failed:" + bi.ResultMessage
		}
	}
	return fmt.Sprintf("other(%d items)", len(resp.BatchItem))
}

// itemToken returns the token carried by a request batch item of either routed operation.
func itemToken(bi *kmip.RequestBatchItem) string {
	switch p := bi.RequestPayload.(type) {
	case *payloads.ActivateRequestPayload:
		return p.UniqueIdentifier
	case *payloads.RevokeRequestPayload:
		return p.UniqueIdentifier
	case *payloads.DestroyRequestPayload:
		return p.UniqueIdentifier
	case *payloads.ArchiveRequestPayload:
		return p.UniqueIdentifier
	case *payloads.RecoverRequestPayload:
		return p.UniqueIdentifier
	}
	return "?"
}

func itemIdentity(bi *kmip.ResponseBatchItem) string {
	if bi == nil {
		return "nil"
	}
	if strings.HasPrefix(bi.ResultMessage, "fab") {
		return bi.ResultMessage
	}
	if bi.ResultStatus != kmip.ResultStatusSuccess && bi.ResultReason == kmip.ResultReasonFeatureNotSupported {
		return "failed:critical-extension"
	}
	if bi.ResultStatus != kmip.ResultStatusSuccess {
		// (a failed item may still carry the payload of the execution it came from: the failure is what counts)
		return "failed:" + bi.ResultMessage
	}
	if p, ok := bi.ResponsePayload.(*payloads.ActivateResponsePayload); ok {
		_, mm := markerOfToken(p.UniqueIdentifier)
		return "core:" + mm
	}
	if p, ok := bi.ResponsePayload.(*payloads.RevokeResponsePayload); ok {
		_, mm := markerOfToken(p.UniqueIdentifier)
		return "core:" + mm
	}
	return "other"
}

func fabResponse(i int, ver kmip.ProtocolVersion) *kmip.ResponseMessage {
	return &kmip.ResponseMessage{Header: kmip.ResponseHeader{ProtocolVersion: ver, TimeStamp: time.Unix(1700000000, 0).UTC(), BatchCount: 1},
		BatchItem: []kmip.ResponseBatchItem{{Operation: kmip.OperationActivate, ResultStatus: kmip.ResultStatusSuccess, ResultMessage: fmt.Sprintf("fab%d", i),
			ResponsePayload: &payloads.ActivateResponsePayload{UniqueIdentifier: "fabricated"}}}}
}

// msgStage builds stage i as a message-level middleware (shared shape of client and server chains).
func (cr *chainRun) msgStage(i int) func(next func(context.Context, *kmip.RequestMessage) (*kmip.ResponseMessage, error), ctx context.Context, msg *kmip.RequestMessage) (*kmip.ResponseMessage, error) {
	st := programStages(cr.sc.Stages)[i]
	return func(next func(context.Context, *kmip.RequestMessage) (*kmip.ResponseMessage, error), ctx context.Context, msg *kmip.RequestMessage) (*kmip.ResponseMessage, error) {
		req, mm := markerOfToken(reqTokenOf(msg))
		cm := ctxMarkOf(ctx)
		cr.rec(req, fmt.Sprintf("enter s%d ctx=%s msg=%s", i, cm, mm))
		results := make([]*kmip.ResponseMessage, st.Calls)
		errs := make([]error, st.Calls)
		pending := 0
		for k := 0; k < st.Calls; k++ {
			if st.Yield {
				cr.s.YieldNow("stage-dally")
			}
			c, m := ctx, msg
			c = realHandDown(ctx, st, cm, i, k)
			if st.Replace {
				m = cloneReqWithMark(msg, fmt.Sprintf("~s%dc%d", i, k))
			}
			call := func(k int) {
				r, err := next(c, m)
				id := pairIdentity(respIdentity(r), r != nil, err)
				cr.rec(req, fmt.Sprintf("s%d got %s err=%v", i, id, err != nil))
				results[k], errs[k] = r, err
			}
			if st.Parallel {
				pending++
				k := k
				cr.s.Spawn("hedge", func() { defer func() { pending-- }(); call(k) })
			} else {
				call(k)
			}
		}
		if st.Parallel {
			cr.s.WaitUntil("hedged-calls-done", func() bool { return pending == 0 })
		}
		switch {
		case st.Ret == "err":
			return nil, fmt.Errorf("err%d", i)
		case st.Ret == "both" && st.Calls > 0:
			return results[len(results)-1], fmt.Errorf("both%d", i)
		case st.Ret == "fab" || st.Calls == 0:
			return fabResponse(i, msg.Header.ProtocolVersion), nil
		case st.Ret == "first":
			return results[0], errs[0]
		default:
			return results[len(results)-1], errs[len(errs)-1]
		}
	}
}

// siblingStage belongs to the chain of another executor / client built from the same common list: it must never
// run for a request of the chain under test.
func (cr *chainRun) siblingStage() func(next func(context.Context, *kmip.RequestMessage) (*kmip.ResponseMessage, error), ctx context.Context, msg *kmip.RequestMessage) (*kmip.ResponseMessage, error) {
	return func(next func(context.Context, *kmip.RequestMessage) (*kmip.ResponseMessage, error), ctx context.Context, msg *kmip.RequestMessage) (*kmip.ResponseMessage, error) {
		req, _ := markerOfToken(reqTokenOf(msg))
		cr.rec(req, "stage of another executor ran")
		return next(ctx, msg)
	}
}

// registerPlan calls use(a, b) for every registration call of the chain under test (one or two calls over the
// caller-owned list) and sibling(0, k) for the sibling, which shares the first registration call's sub-list.
func registerPlan(sc *C19Sc, n int, use func(a, b int), sibling func(a, b int), late *func()) {
	cut := sc.Cut
	if cut > n {
		cut = n
	}
	first := n
	if cut > 0 {
		first = cut
	}
	if sc.Sibling == 2 {
		sibling(0, first)
	}
	use(0, first)
	rest := func() {
		if cut > 0 {
			use(cut, n)
		}
		if sc.Sibling == 1 {
			sibling(0, first)
		}
	}
	if sc.Late && cut > 0 && late != nil {
		*late = rest
		return
	}
	rest()
}

func (cr *chainRun) itemStage(i int) kmipserver.BatchItemMiddleware {
	st := programStages(cr.sc.Stages)[i]
	return func(next kmipserver.BatchItemNext, ctx context.Context, bi *kmip.RequestBatchItem) (*kmip.ResponseBatchItem, error) {
		tok := itemToken(bi)
		req, mm := markerOfToken(tok)
		cm := ctxMarkOf(ctx)
		cr.rec(req, fmt.Sprintf("enter s%d ctx=%s msg=%s", i, cm, mm))
		results := make([]*kmip.ResponseBatchItem, st.Calls)
		errs := make([]error, st.Calls)
		pending := 0
		for k := 0; k < st.Calls; k++ {
			if st.Yield {
				cr.s.YieldNow("stage-dally")
			}
			c, b := ctx, bi
			c = realHandDown(ctx, st, cm, i, k)
			if st.Replace {
				cp := *bi
				marked := withMsgMark(tok, fmt.Sprintf("~s%dc%d", i, k))
				revoke := bi.Operation == kmip.OperationRevoke
				if st.OtherOp {
					revoke = !revoke
				}
				if revoke {
					cp.Operation, cp.RequestPayload = kmip.OperationRevoke, &payloads.RevokeRequestPayload{UniqueIdentifier: marked}
				} else {
					cp.Operation, cp.RequestPayload = kmip.OperationActivate, &payloads.ActivateRequestPayload{UniqueIdentifier: marked}
				}
				b = &cp
			}
			call := func(k int) {
				r, err := next(c, b)
				id := pairIdentity(itemIdentity(r), r != nil, err)
				cr.rec(req, fmt.Sprintf("s%d got %s err=%v", i, id, err != nil))
				results[k], errs[k] = r, err
			}
			if st.Parallel {
				pending++
				k := k
				cr.s.Spawn("hedge", func() { defer func() { pending-- }(); call(k) })
			} else {
				call(k)
			}
		}
		if st.Parallel {
			cr.s.WaitUntil("hedged-calls-done", func() bool { return pending == 0 })
		}
		switch {
		case st.Ret == "err":
			return nil, fmt.Errorf("err%d", i)
		case st.Ret == "both" && st.Calls > 0:
			return results[len(results)-1], fmt.Errorf("both%d", i)
		case st.Ret == "fab" || st.Calls == 0:
			return &kmip.ResponseBatchItem{Operation: bi.Operation, UniqueBatchItemID: bi.UniqueBatchItemID, ResultStatus: kmip.ResultStatusSuccess, ResultMessage: fmt.Sprintf("fab%d", i),
				ResponsePayload: &payloads.ActivateResponsePayload{UniqueIdentifier: "fabricated"}}, nil
		case st.Ret == "first":
			return results[0], errs[0]
		default:
			return results[len(results)-1], errs[len(errs)-1]
		}
	}
}

func execC19(x *X, scAny any) {
	sc := scAny.(*C19Sc)
	s := x.S
	w := newServerWorld(x)
	cr := &chainRun{w: w, s: s, sc: sc, traces: map[string][]string{}}
	finals := map[string]string{}
	done := 0
	mkReq := func(j int) *kmip.RequestMessage {
		tok := "y1,ok"
		if sc.CorePanic {
			tok = "y1,ps"
		}
		ext := ""
		if sc.CoreCritical {
			ext = "critical"
		}
		switch sc.Rejected {
		case 1:
			return buildRequest(&ReqSc{Version: 5, Option: sc.Option, Items: []ItemSc{{Tok: tok, NoID: true}}}, fmt.Sprintf("q%d", j))
		case 2:
			return buildRequest(&ReqSc{Version: 5, Option: sc.Option, Items: []ItemSc{{Op: "discover", Tok: "ok", NoID: true}}}, fmt.Sprintf("q%d", j))
		}
		return buildRequest(&ReqSc{Version: 4, Option: sc.Option, Items: []ItemSc{{Tok: tok, NoID: true, Ext: ext}}}, fmt.Sprintf("q%d", j))
	}
	reqName := func(j int) string { return fmt.Sprintf("q%d.0", j) }

	var lateReg func()
	switch sc.Driver {
	case "server-msg":
		list := make([]kmipserver.Middleware, 0, len(sc.Stages)+4)
		label := 0
		for _, stg := range sc.Stages {
			if stg.Stock != "" {
				list = append(list, kmipserver.DebugMiddleware(io.Discard, nil))
				continue
			}
			st := cr.msgStage(label)
			label++
			list = append(list, func(next kmipserver.Next, ctx context.Context, msg *kmip.RequestMessage) (*kmip.ResponseMessage, error) {
				return st(next, ctx, msg)
			})
		}
		sib := func(next kmipserver.Next, ctx context.Context, msg *kmip.RequestMessage) (*kmip.ResponseMessage, error) {
			return cr.siblingStage()(next, ctx, msg)
		}
		registerPlan(sc, len(list),
			func(a, b int) { w.exec.Use(list[a:b]...) },
			func(a, b int) {
				other := kmipserver.NewBatchExecutor()
				other.Use(list[a:b]...)
				other.Use(sib)
			}, &lateReg)
	case "server-item":
		list := make([]kmipserver.BatchItemMiddleware, 0, len(sc.Stages)+4)
		for i := range programStages(sc.Stages) {
			list = append(list, cr.itemStage(i))
		}
		sib := func(next kmipserver.BatchItemNext, ctx context.Context, bi *kmip.RequestBatchItem) (*kmip.ResponseBatchItem, error) {
			req, _ := markerOfToken(itemToken(bi))
			cr.rec(req, "stage of another executor ran")
			return next(ctx, bi)
		}
		registerPlan(sc, len(list),
			func(a, b int) { w.exec.BatchItemUse(list[a:b]...) },
			func(a, b int) {
				other := kmipserver.NewBatchExecutor()
				other.BatchItemUse(list[a:b]...)
				other.BatchItemUse(sib)
			}, &lateReg)
	}
	var cl, sibling *kmipclient.Client
	var cw *clientWorld
	if sc.Driver == "client" {
		cw = newClientWorld(x, &ClientSc{Prop: "C19", Enforce: true, Behav: sc.Behav})
		cw.respond = func(_ *clientWorld, req *kmip.RequestMessage, _ int) *kmip.ResponseMessage {
			rq, mm := markerOfToken(reqTokenOf(req))
			cr.rec(rq, fmt.Sprintf("core ctx=%s msg=%s", "*", mm))
			return echoResponse(req)
		}
	}
	ready := sc.Driver != "client" && lateReg == nil
	if lateReg != nil {
		// the executor serves one request with the first part of the chain, then the rest is registered
		s.Spawn("warm-up", func() {
			_ = w.exec.HandleRequest(context.Background(), buildRequest(&ReqSc{Version: 4, Items: []ItemSc{{Tok: "y1,ok", NoID: true}}}, "warm"))
			lateReg()
			ready = true
		})
	}
	if sc.Driver == "client" {
		s.Spawn("dial", func() {
			var mws []kmipclient.Middleware
			label := 0
			for _, stg := range sc.Stages {
				switch stg.Stock {
				case "timeout":
					mws = append(mws, kmipclient.TimeoutMiddleware(time.Minute))
					continue
				case "timeout0":
					mws = append(mws, kmipclient.TimeoutMiddleware(0))
					continue
				case "correlation":
					mws = append(mws, kmipclient.CorrelationValueMiddleware(func() string { return "cv" }))
					continue
				case "debug":
					mws = append(mws, kmipclient.DebugMiddleware(io.Discard, nil))
					continue
				}
				st := cr.msgStage(label)
				label++
				mws = append(mws, func(next kmipclient.Next, ctx context.Context, msg *kmip.RequestMessage) (*kmip.ResponseMessage, error) {
					return st(next, ctx, msg)
				})
			}
			list := make([]kmipclient.Middleware, 0, len(mws)+4)
			list = append(list, mws...)
			sib := func(next kmipclient.Next, ctx context.Context, msg *kmip.RequestMessage) (*kmip.ResponseMessage, error) {
				return cr.siblingStage()(next, ctx, msg)
			}
			base := []kmipclient.Option{kmipclient.WithDialerUnsafe(cw.dialer), kmipclient.EnforceVersion(kmip.V1_4)}
			var mine, others []kmipclient.Option
			registerPlan(sc, len(list),
				func(a, b int) { mine = append(mine, kmipclient.WithMiddlewares(list[a:b]...)) },
				func(a, b int) {
					others = append(append([]kmipclient.Option{}, base...), kmipclient.WithMiddlewares(list[a:b]...), kmipclient.WithMiddlewares(sib))
				}, nil)
			dialSibling := func() {
				if others == nil {
					return
				}
				if oc, err := kmipclient.DialContext(context.Background(), "sim", others...); err == nil {
					sibling = oc
				}
			}
			if sc.Sibling == 2 {
				dialSibling()
			}
			c, err := kmipclient.DialContext(context.Background(), "sim", append(base, mine...)...)
			if err == nil {
				cl = c
			}
			if sc.Sibling == 1 {
				dialSibling()
			}
			if sc.ClosedClient && cl != nil {
				_ = cl.Close()
			}
			ready = true
		})
	}
	for j := 0; j < sc.Requests; j++ {
		j := j
		s.Spawn(fmt.Sprintf("req%d", j), func() {
			defer func() { done++ }()
			s.WaitUntil("ready", func() bool { return ready })
			switch sc.Driver {
			case "server-msg", "server-item":
				resp := w.exec.HandleRequest(context.Background(), mkReq(j))
				if sc.Driver == "server-item" {
					if resp != nil && len(resp.BatchItem) == 1 {
						finals[reqName(j)] = itemIdentity(&resp.BatchItem[0])
					} else {
						finals[reqName(j)] = respIdentity(resp)
					}
				} else {
					finals[reqName(j)] = respIdentity(resp)
				}
			case "client":
				if cl == nil {
					finals[reqName(j)] = "no-client"
					return
				}
				resp, err := cl.Roundtrip(context.Background(), mkReq(j))
				if err != nil {
					finals[reqName(j)] = "error:" + pairIdentity(respIdentity(resp), resp != nil, err)
				} else {
					finals[reqName(j)] = respIdentity(resp)
				}
			}
		})
	}
	if sc.Driver == "client" {
		s.Spawn("closer", func() {
			s.WaitUntil("done", func() bool { return done == sc.Requests })
			if cl != nil {
				_ = cl.Close()
			}
			if sibling != nil {
				_ = sibling.Close()
			}
		})
	}
	s.Run()
	x.CommonOracles("C19")
	if len(s.Result().Panics) > 0 {
		return
	}
	if done != sc.Requests {
		x.Reportf("C19.hang", sc.Driver, "%d of %d requests have not returned", sc.Requests-done, sc.Requests)
		return
	}
	// core executions on the server side come from the handler trace
	if sc.Driver != "client" {
		for _, ev := range w.trace {
			if ev.Kind == "start" {
				rq, mm := markerOfToken(ev.Token)
				_ = rq
				cr.traces["__core__"+rq] = append(cr.traces["__core__"+rq], fmt.Sprintf("core ctx=%s msg=%s", ev.CtxMark, mm))
			}
		}
	}
	for j := 0; j < sc.Requests && sc.Rejected != 0; j++ {
		name := reqName(j)
		if got := cr.traces[name]; len(got) > 0 || len(cr.traces["__core__"+name]) > 0 {
			x.Reportf("C19.chain-trace", "server-item:rejected-request-enters-chain", "request %s travels under an unsupported version and must be rejected as a whole, yet the batch-item chain ran: %s | core: %s", name, strings.Join(got, " | "), strings.Join(cr.traces["__core__"+name], " | "))
			return
		}
		if !strings.HasPrefix(finals[name], "failed:") {
			x.Reportf("C19.result-propagation", "server-item:rejected-request", "request %s travels under an unsupported version: outermost result %q, want a failed item (the batch-item chain was not entered, so whatever produced this ran outside it)", name, finals[name])
			return
		}
	}
	if sc.Rejected != 0 {
		return
	}
	for j := 0; j < sc.Requests; j++ {
		name := reqName(j)
		m := &chainModel{stages: programStages(sc.Stages)}
		if sc.CorePanic {
			m.panicIn = name
		}
		m.closed = sc.ClosedClient
		m.critical = sc.CoreCritical
		m.itemChain = sc.Driver == "server-item"
		m.echoCCV = sc.Driver == "server-msg"
		wantRes, wantErr := m.run(0, "", "")
		want := m.trace
		got := cr.traces[name]
		anyParallel := false
		for _, st := range sc.Stages {
			anyParallel = anyParallel || st.Parallel
		}
		if sc.Driver == "client" {
			// the client core cannot observe the context: mask that column of the model's core events
			for i, e := range want {
				if strings.HasPrefix(e, "core ") {
					want[i] = "core ctx=* " + e[strings.Index(e, "msg="):]
				}
			}
		}
		if anyParallel {
			// concurrent continuation calls interleave freely: the same events must occur, in any order
			got, want = sortedCopy(got), sortedCopy(want)
			cr.traces["__core__"+name] = sortedCopy(cr.traces["__core__"+name])
		}
		if sc.Driver != "client" {
			// merge: the model's trace interleaves core events; compare stage events and core events separately
			var wantStage, wantCore []string
			for _, e := range want {
				if strings.HasPrefix(e, "core ") {
					wantCore = append(wantCore, e)
				} else {
					wantStage = append(wantStage, e)
				}
			}
			if anyParallel {
				wantCore = sortedCopy(wantCore)
			}
			if sc.CoreCritical {
				wantCore = nil // (the core refuses the item before any operation handler: none may have run)
			}
			gotCore := cr.traces["__core__"+name]
			if strings.Join(got, "\n") != strings.Join(wantStage, "\n") {
				x.Reportf("C19.chain-trace", sc.Driver+":"+traceDiffClass(got, wantStage), "%s chain %s, request %s:\n got: %s\nwant: %s", sc.Driver, stagesDesc(sc.Stages), name, strings.Join(got, " | "), strings.Join(wantStage, " | "))
				return
			}
			if strings.Join(gotCore, "\n") != strings.Join(wantCore, "\n") {
				x.Reportf("C19.core-executions", sc.Driver+":"+traceDiffClass(gotCore, wantCore), "%s chain %s, request %s: core handler executions\n got: %s\nwant: %s", sc.Driver, stagesDesc(sc.Stages), name, strings.Join(gotCore, " | "), strings.Join(wantCore, " | "))
				return
			}
		} else {
			if strings.Join(got, "\n") != strings.Join(want, "\n") {
				x.Reportf("C19.chain-trace", sc.Driver+":"+traceDiffClass(got, want), "%s chain %s, request %s:\n got: %s\nwant: %s", sc.Driver, stagesDesc(sc.Stages), name, strings.Join(got, " | "), strings.Join(want, " | "))
				return
			}
		}
		// outward result propagation
		gotFinal := finals[name]
		ok := false
		switch {
		case wantErr && sc.Driver == "client":
			ok = gotFinal == "error:"+wantRes
		case wantErr:
			ok = gotFinal == "failed:"+errPart(wantRes) // the server turns a chain error into a failed item carrying the message
		default:
			ok = gotFinal == wantRes
		}
		if !ok {
			x.Reportf("C19.result-propagation", sc.Driver, "%s chain %s, request %s: outermost result %q, want %q (error=%v)", sc.Driver, stagesDesc(sc.Stages), name, gotFinal, wantRes, wantErr)
			return
		}
	}
}

func traceDiffClass(got, want []string) string {
	switch {
	case len(got) < len(want):
		return "fewer-events"
	case len(got) > len(want):
		return "more-events"
	default:
		return "different-events"
	}
}

func stagesDesc(st []StageSc) string {
	var parts []string
	for _, s := range st {
		if s.Stock != "" {
			parts = append(parts, "<"+s.Stock+">")
			continue
		}
		p := fmt.Sprintf("x%d", s.Calls)
		if s.Replace {
			p += "R"
		}
		if s.Wrap {
			p += "W"
		}
		if s.CtxDone {
			p += "!"
		}
		if s.Detach {
			p += "+"
		}
		if s.Ret != "" {
			p += ":" + s.Ret
		}
		parts = append(parts, p)
	}
	return "[" + strings.Join(parts, " ") + "]"
}

var _ = errors.New
var _ = simnet.ChunkMax

func init() {
	register(&Prop{
		ID: "C19", Engine: "server+client",
		Generate: genC19, Decode: decodeC19, Execute: execC19,
		Config: func(any) simrt.Config { return simrt.Config{MaxSteps: 60000, IdleProbe: 5 * time.Second} },
		Runs:   clientRuns(150000, 8000000),
		Floors: []Floor{{Name: "all-short-chains", Count: func(t string) int { return len(c19Floor(t)) }, Scenario: func(t string, i int) any { return c19Floor(t)[i] }}},
		Rule:   "one evaluation = one simulated run of a generated middleware chain (0-4 stages; each stage calls the continuation 0-3 times, optionally replacing the message/batch item and wrapping the context, and returns the last/first/a fabricated result or (nil, err)) on one of the three real chain drivers (Client.Roundtrip, BatchExecutor.HandleRequest, the batch-item chain) with 1-3 concurrent requests sharing the chain; distinct = distinct event-log hashes among runs with at least one preemption",
		Components: map[string][]string{
			"real": {"kmipclient.Client.Roundtrip chain driver", "kmipserver.BatchExecutor.HandleRequest chain driver", "kmipserver batch-item chain driver (executeItemWithMiddleware)", "BatchExecutor core, ttlv codec"},
			"stub": {"middleware stages (generated programs)", "client transport: simnet + scripted echo server", "operation handler (scripted)"},
		},
		Assumptions: []string{"the client core cannot observe the context it is given; context hand-over is checked at every stage entry instead", "inside the batch-item chain the core's refusal of an item with a critical extension travels as an (empty item, error) pair, merged into a failed item once the chain has returned (what the unchanged library does; a tree that merged earlier would need the model adjusted)", "rewriter is semantics-preserving"},
	})
}

func sortedCopy(in []string) []string {
	out := append([]string{}, in...)
	sort.Strings(out)
	return out
}
