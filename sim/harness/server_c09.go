package harness

import (
	"bytes"
	"context"
	"encoding/json"
	"fmt"
	"github.com/ovh/kmip-go/kmipserver"
	"slices"
	"strings"

	"kmipverif/simnet"
	"kmipverif/simrt"

	"github.com/ovh/kmip-go"
	"github.com/ovh/kmip-go/kmipclient"
	"github.com/ovh/kmip-go/payloads"
)

// ---- C09: server batch execution follows KMIP batch semantics

type C09Sc struct {
	Reqs      []ReqSc `json:"reqs"`       // one per task
	EndToEnd  bool    `json:"end_to_end"` // real client -> simnet -> real server instead of direct HandleRequest calls
	Supported int     `json:"supported"`  // bitmask of versions the executor supports; 0 = default
	// SupportedSpelling: how the set is handed to SetSupportedProtocolVersions: 0 ascending, 1 descending, 2 with its
	// first element repeated at the end, 3 every element twice
	SupportedSpelling int `json:"supported_spelling,omitempty"`
	// Sibling: another executor of the same process is restricted to this set (bitmask) before (1..31) the executor
	// under test is created, or after it (negative): executors are independent of each other
	Sibling int `json:"sibling,omitempty"`
	Chunk   int `json:"chunk,omitempty"`
	// Reconf / ReconfAt: the executor is given another supported set (bitmask) while in service: the first ReconfAt
	// requests run to completion under the initial set, then SetSupportedProtocolVersions is called again, then the
	// others run. Each request is judged by the set in force when it ran
	// RouteDiscover: the application routes Discover Versions itself (its handler may fail or panic like any other)
	RouteDiscover bool `json:"route_discover,omitempty"`
	Reconf        int  `json:"reconf,omitempty"`
	ReconfAt      int  `json:"reconf_at,omitempty"`
}

var c09Outcomes = []ItemSc{
	{Tok: "ok"}, {Tok: "et"}, {Tok: "ep"}, {Tok: "pe"}, {Tok: "ps"}, {Tok: "pi"}, {Op: "unrouted", Tok: "ok"}, {Tok: "ok", Ext: "critical"}, {Op: "discover", Tok: "ok"}, {Op: "unknown", Tok: "ok"},
	{Tok: "pS"}, {Tok: "pn"}, {Tok: "ok", Ext: "plain"}, {Tok: "y1,ok"}, {Tok: "y2,et"}, {Tok: "pk"}, {Tok: "pK"}, {Tok: "pm"}, {Tok: "nn"}, {Tok: "y1,nn"}, {Op: "destroy", Tok: "ok"}, {Op: "archive", Tok: "et"}, {Op: "recover", Tok: "ok"}, {Op: "revoke", Tok: "pe"}, {Op: "destroy", Tok: "nn"}, {Op: "discover", Tok: "et"}, {Op: "discover", Tok: "pe"}, {Op: "discover", Tok: "nn"}, {Tok: "eL"}, {Tok: "eW"}, {Tok: "y1,eL"},
}

func genReqSc(g *simrt.Tape, maxItems int) ReqSc {
	rs := ReqSc{}
	switch g.Draw(10) {
	case 0:
		rs.Version = 5
	case 1:
		rs.Version = []int{6, 7, 8}[g.Draw(3)]
	default:
		rs.Version = g.Draw(5)
	}
	rs.Option = g.Draw(4)
	rs.Hdr = genHdr(g)
	rs.IDs = genIDs(g)
	if g.Draw(8) == 0 {
		rs.MaxResp = []int{1, 8, 100, 200, 300, 500}[g.Draw(6)]
	}
	if rs.Option == 3 && g.Draw(2) == 0 {
		rs.Option = g.Draw(3)
	}
	switch g.Draw(8) {
	case 0:
		rs.CountDelta = 1
	case 1:
		rs.CountDelta = -1
	case 2:
		rs.CountDelta = []int{-1000, -2000, 1000}[g.Draw(3)]
	}
	n := g.Draw(maxItems + 1)
	for i := 0; i < n; i++ {
		it := c09Outcomes[g.Draw(len(c09Outcomes))]
		it.NoID = g.Draw(4) == 0
		rs.Items = append(rs.Items, it)
	}
	if len(rs.Items)+rs.CountDelta < 0 && rs.CountDelta > -1000 {
		rs.CountDelta = 0
	}
	rs.Ctx = []int{0, 0, 0, 1, 2}[g.Draw(5)]
	if rs.Ctx == 2 && len(rs.Items) > 0 {
		k := g.Draw(len(rs.Items))
		rs.Items[k].Tok = "cc," + rs.Items[k].Tok
	}
	return rs
}

func genC09(g *simrt.Tape, tier string) any {
	sc := &C09Sc{}
	nt := 1 + g.Draw(4)
	for i := 0; i < nt; i++ {
		sc.Reqs = append(sc.Reqs, genReqSc(g, 12))
	}
	sc.EndToEnd = g.Draw(3) == 0
	if g.Draw(4) == 0 {
		sc.Supported = 1 + g.Draw(31)
		sc.SupportedSpelling = g.Draw(4)
	}
	if g.Draw(5) == 0 {
		sc.Sibling = 1 + g.Draw(31)
		if g.Draw(2) == 0 {
			sc.Sibling = -sc.Sibling
		}
	}
	sc.Chunk = []int{simnet.ChunkMax, simnet.ChunkRandom}[g.Draw(2)]
	if g.Draw(5) == 0 {
		sc.RouteDiscover = true
		for i := range sc.Reqs {
			routedDiscovery(&sc.Reqs[i])
		}
	}
	if len(sc.Reqs) > 1 && g.Draw(5) == 0 {
		sc.Reconf = 1 + g.Draw(31)
		sc.ReconfAt = 1 + g.Draw(len(sc.Reqs)-1)
	}
	return sc
}

func decodeC09(raw json.RawMessage) (any, error) {
	sc := &C09Sc{}
	return sc, json.Unmarshal(raw, sc)
}

// checkBatch compares one response and the handler trace of one request with the
// reference model written from the property statement (DESIGN Appendix C).
func checkBatch(x *X, prop string, rs *ReqSc, prefix string, supported []kmip.ProtocolVersion, resp *kmip.ResponseMessage, trace []hEvent, connID string) {
	req := buildRequest(rs, prefix)
	// handler executions of this request, in order
	var started []string
	for _, ev := range trace {
		if connID != "" && ev.ConnID != connID {
			// another connection's handler (its token may have been altered by a corrupted frame to look like ours)
			continue
		}
		if ev.Kind == "start" && strings.HasPrefix(ev.ID, prefix+".") {
			started = append(started, ev.ID)
		}
	}
	desc := fmt.Sprintf("request %s (version=%v option=%d count_delta=%d items=%s)", prefix, req.Header.ProtocolVersion, rs.Option, rs.CountDelta, itemsDesc(rs))
	if resp == nil {
		x.Reportf(prop+".no-response", "nil", "%s: no response", desc)
		return
	}
	versionOK := false
	for _, v := range supported {
		if v == req.Header.ProtocolVersion {
			versionOK = true
		}
	}
	if !versionOK || rs.Option == 3 || rs.CountDelta != 0 {
		why := "unsupported-version"
		if versionOK && rs.Option == 3 {
			why = "undo"
		} else if versionOK {
			why = "count-mismatch"
		}
		if len(started) > 0 {
			x.Reportf(prop+".handler-ran-for-rejected-request", why, "%s: must be rejected, but handlers ran: %v", desc, started)
			return
		}
		if len(resp.BatchItem) != 1 || resp.BatchItem[0].ResultStatus != kmip.ResultStatusOperationFailed {
			x.Reportf(prop+".not-rejected", why, "%s: must be rejected with a single failed item, got %d item(s) %s", desc, len(resp.BatchItem), respDesc(resp))
			return
		}
		// the header of the rejection is held to the first sentence of the statement as well: its batch count is the
		// number of items it carries, and it answers in the request's version when that version is one the server speaks
		if resp.Header.BatchCount != 1 {
			x.Reportf(prop+".batch-count", "rejection:"+why, "%s: rejection carries one item but header BatchCount=%d", desc, resp.Header.BatchCount)
			return
		}
		if versionOK && resp.Header.ProtocolVersion != req.Header.ProtocolVersion {
			x.Reportf(prop+".version-echo", "rejection:"+why, "%s: rejection answers in version %v", desc, resp.Header.ProtocolVersion)
		}
		return
	}
	n := len(rs.Items)
	if len(resp.BatchItem) != n {
		x.Reportf(prop+".item-count", "len", "%s: response has %d items", desc, len(resp.BatchItem))
		return
	}
	if int(resp.Header.BatchCount) != n {
		x.Reportf(prop+".batch-count", "header", "%s: response header BatchCount=%d", desc, resp.Header.BatchCount)
		return
	}
	if resp.Header.ProtocolVersion != req.Header.ProtocolVersion {
		x.Reportf(prop+".version-echo", "header", "%s: response version %v", desc, resp.Header.ProtocolVersion)
		return
	}
	for i, ri := range resp.BatchItem {
		if ri.Operation != req.BatchItem[i].Operation {
			x.Reportf(prop+".operation-echo", "item", "%s: item %d echoes operation %v", desc, i, ri.Operation)
			return
		}
		if !bytes.Equal(ri.UniqueBatchItemID, req.BatchItem[i].UniqueBatchItemID) {
			x.Reportf(prop+".id-echo", "item", "%s: item %d echoes id %q, want %q", desc, i, ri.UniqueBatchItemID, req.BatchItem[i].UniqueBatchItemID)
			return
		}
	}
	modes := []int{rs.Option}
	if rs.Option == 0 {
		modes = []int{1, 2} // the statement does not fix the default: either, but one of the two
	}
	var why []string
	for _, mode := range modes {
		var wantStarted []string
		var wantOK []bool
		stopped := false
		for i, it := range rs.Items {
			if stopped {
				wantOK = append(wantOK, false)
				continue
			}
			if itemRunsHandler(it) {
				wantStarted = append(wantStarted, fmt.Sprintf("%s.%d", prefix, i))
			}
			ok := !itemFails(it)
			if returnsNothing(it) && itemRunsHandler(it) {
				// a handler that returns neither payload nor error: whether that item counts as failed is the
				// library's call (the statement is silent); the rest of the batch is judged by what it said
				ok = i < len(resp.BatchItem) && resp.BatchItem[i].ResultStatus == kmip.ResultStatusSuccess
			}
			if ok && rs.MaxResp > 0 && i < len(resp.BatchItem) && resp.BatchItem[i].ResultStatus != kmip.ResultStatusSuccess && resp.BatchItem[i].ResultReason == kmip.ResultReasonResponseTooLarge {
				// the request asked for a small response and the item's result did not fit: a failed item
				ok = false
			}
			wantOK = append(wantOK, ok)
			if !ok && mode == 2 {
				stopped = true
			}
		}
		mismatch := ""
		if strings.Join(started, " ") != strings.Join(wantStarted, " ") {
			mismatch = fmt.Sprintf("handlers ran %v, want %v", started, wantStarted)
		}
		for i, ri := range resp.BatchItem {
			if mismatch != "" {
				break
			}
			gotOK := ri.ResultStatus == kmip.ResultStatusSuccess
			if gotOK != wantOK[i] {
				mismatch = fmt.Sprintf("item %d status %v, want success=%v", i, ri.ResultStatus, wantOK[i])
			} else if gotOK && rs.Items[i].Op == "discover-routed" && returnsNothing(rs.Items[i]) {
				// nothing returned, nothing judged
			} else if gotOK && (rs.Items[i].Op == "discover" || rs.Items[i].Op == "discover-routed") {
				// (the executor answers with the request payload type, which has the same wire form: both accepted)
				n := -1
				switch p := ri.ResponsePayload.(type) {
				case *payloads.DiscoverVersionsResponsePayload:
					n = len(p.ProtocolVersion)
				case *payloads.DiscoverVersionsRequestPayload:
					n = len(p.ProtocolVersion)
				}
				if n <= 0 {
					mismatch = fmt.Sprintf("item %d: built-in discovery answered with %v", i, ri.ResponsePayload)
				}
			} else if gotOK {
				rid, has := responseIdentifier(ri.ResponsePayload)
				if returnsNothing(rs.Items[i]) && !has {
					// nothing returned, nothing carried
				} else if !has || tokenID(rid) != fmt.Sprintf("%s.%d", prefix, i) {
					mismatch = fmt.Sprintf("item %d carries the payload of another item (%v)", i, ri.ResponsePayload)
				}
			}
		}
		if mismatch == "" {
			return
		}
		why = append(why, fmt.Sprintf("as %s: %s", []string{"", "Continue", "Stop"}[mode], mismatch))
	}
	sig := []string{"unset", "continue", "stop"}[rs.Option]
	x.Reportf(prop+".batch-semantics", sig, "%s: %s; response %s", desc, strings.Join(why, "; "), respDesc(resp))
}

// returnsNothing: the scripted handler of this item ends with "return nil, nil".
func returnsNothing(it ItemSc) bool {
	for _, a := range strings.Split(it.Tok, ",") {
		if a == "nn" {
			return !itemFails(it)
		}
	}
	return false
}

func itemsDesc(rs *ReqSc) string {
	var parts []string
	for _, it := range rs.Items {
		p := it.Tok
		if it.Op != "" {
			p = it.Op
		}
		if it.Ext != "" {
			p += "+" + it.Ext
		}
		if it.NoID {
			p += "-noid"
		}
		parts = append(parts, p)
	}
	return "[" + strings.Join(parts, " ") + "]"
}

func respDesc(resp *kmip.ResponseMessage) string {
	var parts []string
	for _, ri := range resp.BatchItem {
		parts = append(parts, fmt.Sprintf("%v/%v", ri.ResultStatus, ri.ResultReason))
	}
	return fmt.Sprintf("count=%d [%s]", resp.Header.BatchCount, strings.Join(parts, " "))
}

func execC09(x *X, scAny any) {
	sc := scAny.(*C09Sc)
	s := x.S
	if sc.Sibling > 0 {
		kmipserver.NewBatchExecutor().SetSupportedProtocolVersions(setOf(sc.Sibling)...)
	}
	w := newServerWorld(x)
	if sc.Sibling < 0 {
		kmipserver.NewBatchExecutor().SetSupportedProtocolVersions(setOf(-sc.Sibling)...)
	}
	supported := []kmip.ProtocolVersion{kmip.V1_0, kmip.V1_1, kmip.V1_2, kmip.V1_3, kmip.V1_4}
	if sc.Supported != 0 {
		supported = setOf(sc.Supported)
		list := setOf(sc.Supported)
		switch sc.SupportedSpelling % 4 {
		case 1:
			slices.Reverse(list)
		case 2:
			list = append(list, list[0])
		case 3:
			list = append(list, list...)
		}
		w.exec.SetSupportedProtocolVersions(list...)
	}
	if sc.RouteDiscover {
		w.routeDiscover()
	}
	resps := make([]*kmip.ResponseMessage, len(sc.Reqs))
	errs := make([]error, len(sc.Reqs))
	done := 0
	reconfDone := sc.Reconf == 0
	gate := func(i int) {
		if sc.Reconf != 0 && i >= sc.ReconfAt {
			s.WaitUntil("reconfigured", func() bool { return reconfDone })
		}
	}
	if sc.Reconf != 0 {
		s.Spawn("reconfigure", func() {
			s.WaitUntil("first-phase-done", func() bool { return done >= min(sc.ReconfAt, len(sc.Reqs)) })
			s.Fault("supported-versions-changed-in-service")
			w.exec.SetSupportedProtocolVersions(setOf(sc.Reconf)...)
			reconfDone = true
		})
	}
	if !sc.EndToEnd {
		for i := range sc.Reqs {
			i := i
			s.Spawn(fmt.Sprintf("req%d", i), func() {
				defer func() { done++ }()
				gate(i)
				prefix := fmt.Sprintf("r%d", i)
				resps[i] = w.exec.HandleRequest(w.requestContext(&sc.Reqs[i], prefix), buildRequest(&sc.Reqs[i], prefix))
			})
		}
	} else {
		w.startServer(func(string) simnet.EP { return simnet.EP{Chunk: sc.Chunk} }, 0)
		for i := range sc.Reqs {
			i := i
			s.Spawn(fmt.Sprintf("client%d", i), func() {
				defer func() { done++ }()
				gate(i)
				dial := 0
				c, err := kmipclient.DialContext(context.Background(), "sim", kmipclient.EnforceVersion(kmip.V1_4),
					kmipclient.WithDialerUnsafe(func(ctx context.Context) (conn netConn, err error) {
						dial++
						return w.ln.Dial(fmt.Sprintf("c%d-%d", i, dial), simnet.EP{Chunk: sc.Chunk})
					}))
				if err != nil {
					errs[i] = err
					return
				}
				resps[i], errs[i] = c.Roundtrip(context.Background(), buildRequest(&sc.Reqs[i], fmt.Sprintf("r%d", i)))
				_ = c.Close()
			})
		}
		s.Spawn("shutdown", func() {
			s.WaitUntil("clients-done", func() bool { return done == len(sc.Reqs) })
			w.shutdown()
		})
	}
	s.Run()
	x.CommonOracles("C09")
	if len(s.Result().Panics) > 0 {
		return
	}
	if done != len(sc.Reqs) {
		x.Reportf("C09.hang", "request", "%d of %d requests have not returned at quiescence", len(sc.Reqs)-done, len(sc.Reqs))
		return
	}
	for i := range sc.Reqs {
		if errs[i] != nil {
			x.Reportf("C09.transport-error", "roundtrip", "request r%d failed on a healthy transport: %v", i, errs[i])
			continue
		}
		sup := supported
		if sc.Reconf != 0 && i >= sc.ReconfAt {
			sup = setOf(sc.Reconf)
		}
		checkBatch(x, "C09", &sc.Reqs[i], fmt.Sprintf("r%d", i), sup, resps[i], w.trace, "")
	}
}

// ---- floor: every batch up to a length bound over the outcome alphabet, completely
var c09FloorAlphabet = []ItemSc{{Tok: "ok"}, {Tok: "et"}, {Tok: "ep"}, {Tok: "pe"}, {Tok: "ps"}, {Tok: "eL"}, {Op: "unrouted", Tok: "ok"}, {Tok: "ok", Ext: "critical"}, {Tok: "pk"}, {Tok: "pm"}}

func c09FloorMaxLen(tier string) int {
	if tier == "thorough" {
		return 5
	}
	return 3
}

func c09FloorCount(tier string) int {
	total := 0
	per := 4 * 2 * 2 * 3 // option x ids x version x count
	p := 1
	for l := 0; l <= c09FloorMaxLen(tier); l++ {
		total += p * per
		p *= len(c09FloorAlphabet)
	}
	return total
}

func c09FloorScenario(tier string, idx int) any {
	per := 4 * 2 * 2 * 3
	p := 1
	for l := 0; ; l++ {
		if idx < p*per {
			combo, rest := idx/per, idx%per
			rs := ReqSc{Option: rest % 4}
			rest /= 4
			noID := rest%2 == 1
			rest /= 2
			if rest%2 == 1 {
				rs.Version = 5
			} else {
				rs.Version = 2
			}
			rest /= 2
			rs.CountDelta = []int{0, 1, -1}[rest]
			for i := 0; i < l; i++ {
				it := c09FloorAlphabet[combo%len(c09FloorAlphabet)]
				combo /= len(c09FloorAlphabet)
				it.NoID = noID
				rs.Items = append(rs.Items, it)
			}
			if len(rs.Items)+rs.CountDelta < 0 {
				rs.CountDelta = 2
			}
			return &C09Sc{Reqs: []ReqSc{rs}}
		}
		idx -= p * per
		p *= len(c09FloorAlphabet)
	}
}

var serverComponents = map[string][]string{
	"real": {"kmipserver (Server, conn readloop/writeloop, BatchExecutor, context accessors, errors)", "ttlv.Stream and codec", "kmip, payloads", "kmipclient in end-to-end variants"},
	"stub": {"network (simnet listener/conn)", "operation handlers and middlewares (scripted by request token)", "raw clients (scripted tasks)", "clock (synctest)", "TLS (simrt.TLSConn stand-in in the TLS mode of C08/C16: a handshake that blocks until the client hello arrives, honours deadlines and its context; no cryptography, no certificates)", "TCP socket options (simrt.TCPConn: SO_LINGER 0 modelled, the others accepted and ignored)", "logger (discard)"},
}

func init() {
	register(&Prop{
		ID: "C09", Engine: "server",
		Generate: genC09, Decode: decodeC09, Execute: execC09,
		Config: func(any) simrt.Config { return simrt.Config{MaxSteps: 60000, IdleProbe: 4 * 1e9} },
		Runs:   clientRuns(150000, 8000000),
		Floors: []Floor{{Name: "all-short-batches", Count: c09FloorCount, Scenario: c09FloorScenario},
			{Name: "extreme-counts-and-cancelled-contexts", Count: func(string) int { return 3*3*4 + 4*4*3 }, Scenario: func(_ string, i int) any {
				if i < 36 {
					items := []ItemSc{{Tok: "ok"}, {Tok: "et"}}[:i%3]
					return &C09Sc{Reqs: []ReqSc{{Version: 3, Option: (i / 3) % 4, CountDelta: []int{-1000, -2000, 1000}[i/12], Items: items}}}
				}
				i -= 36
				items := []ItemSc{{Tok: "ok"}, {Tok: "et"}, {Tok: "ok"}, {Tok: "pe"}}
				rs := ReqSc{Version: 4, Option: i % 4, Ctx: 1 + (i/4)%2, Items: items}
				if rs.Ctx == 2 {
					k := (i / 8) % 4
					items[k].Tok = "cc," + items[k].Tok
				}
				if i/32 == 1 {
					rs.Ctx = 1
					rs.Items = items[:i%3]
				}
				return &C09Sc{Reqs: []ReqSc{rs}}
			}},
			{Name: "sibling-executors", Count: func(string) int { return 2 * 5 * 5 }, Scenario: func(_ string, i int) any {
				sib := []int{1, 2, 16, 5, 24}[i%5]
				if i >= 25 {
					sib = -sib
				}
				return &C09Sc{Sibling: sib, Reqs: []ReqSc{{Version: (i / 5) % 5, Option: 1, Items: []ItemSc{{Tok: "ok"}, {Tok: "ok"}, {Tok: "ok"}}}}}
			}},
			{Name: "supported-set-spellings", Count: func(string) int { return 3 * 4 * 9 }, Scenario: func(_ string, i int) any {
				return &C09Sc{Supported: []int{5, 20, 31}[i%3], SupportedSpelling: (i / 3) % 4,
					Reqs: []ReqSc{{Version: i / 12, Option: 1, Items: []ItemSc{{Tok: "ok"}, {Tok: "ok"}}}}}
			}},
			{Name: "routed-discovery", Count: func(string) int { return 4 * 4 * 2 }, Scenario: func(_ string, i int) any {
				tok := []string{"ok", "et", "pe", "nn"}[i%4]
				return &C09Sc{RouteDiscover: true, EndToEnd: i >= 16, Reqs: []ReqSc{{Version: 4, Option: (i / 4) % 4, Items: []ItemSc{{Tok: "ok"}, {Op: "discover-routed", Tok: tok}, {Tok: "ok"}}},
					{Version: 2, Option: (i / 4) % 4, Items: []ItemSc{{Op: "discover-routed", Tok: tok}}}}}
			}},
			{Name: "small-maximum-response-size", Count: func(string) int { return 6 * 4 * 3 }, Scenario: func(_ string, i int) any {
				toks := [][]ItemSc{{{Tok: "ok"}, {Tok: "ok"}, {Tok: "ok"}}, {{Tok: "ok"}, {Tok: "et"}, {Tok: "ok"}, {Tok: "ok"}}, {{Tok: "ok"}, {Tok: "ok", NoID: true}, {Tok: "pe"}, {Tok: "ok"}, {Tok: "ok"}}}
				return &C09Sc{EndToEnd: i%2 == 1, Reqs: []ReqSc{{Version: 2 + i%3, Option: (i / 6) % 4, MaxResp: []int{1, 8, 100, 200, 300, 500}[i%6], Items: toks[i/24]}}}
			}},
			{Name: "reconfigured-in-service", Count: func(string) int { return 5 * 5 * 4 }, Scenario: func(_ string, i int) any {
				// initial set (default or restricted), new set, version of the requests before and after
				ini := []int{0, 31, 3, 24, 4}[i%5]
				neu := []int{3, 24, 31, 1, 16}[(i/5)%5]
				v := []int{0, 1, 3, 4}[i/25]
				rq := func() ReqSc { return ReqSc{Version: v, Option: 1, Items: []ItemSc{{Tok: "ok"}, {Tok: "ok"}}} }
				return &C09Sc{Supported: ini, Reconf: neu, ReconfAt: 1, EndToEnd: i%2 == 1, Reqs: []ReqSc{rq(), rq(), rq()}}
			}},
			{Name: "item-id-spellings", Count: func(string) int { return 6 * 4 * 3 }, Scenario: func(_ string, i int) any {
				toks := [][]ItemSc{{{Tok: "ok"}, {Tok: "ok"}, {Tok: "ok"}}, {{Tok: "ok"}, {Tok: "et"}, {Tok: "ok"}, {Tok: "ok"}}, {{Tok: "ok"}, {Tok: "ok", NoID: true}, {Tok: "pe"}, {Tok: "ok"}, {Tok: "ok"}}}
				return &C09Sc{EndToEnd: i%2 == 1, Reqs: []ReqSc{{Version: 2 + i%3, Option: (i / 6) % 4, IDs: 1 + i%6, Items: toks[i/24]}}}
			}},
			{Name: "header-elements", Count: func(string) int { return len(allHdrs()) * 4 }, Scenario: func(_ string, i int) any {
				hs := allHdrs()
				return &C09Sc{Reqs: []ReqSc{{Version: 2 + i%3, Option: (i / len(hs)) % 4, Hdr: hs[i%len(hs)], Items: []ItemSc{{Tok: "ok"}, {Tok: "et"}, {Tok: "ok"}, {Tok: "pe"}}}}}
			}}},
		Rule:        "one evaluation = one simulated run in which 1-4 request batches (0-12 items; outcomes ok/typed error/plain error/panic(error|string|Stringer|int|nil-deref)/unrouted/critical extension; option unset/Continue/Stop/Undo; supported or unsupported version; matching or mismatching count; with/without ids) are executed concurrently on one real BatchExecutor, directly or through real client -> simnet -> real server; distinct = distinct event-log hashes among runs with at least one preemption or chunked read",
		Components:  serverComponents,
		Assumptions: []string{"for an unset continuation option the model accepts Stop or Continue behaviour (the statement does not fix the default)", "result reasons and messages are not compared", "rewriter is semantics-preserving"},
	})
}
