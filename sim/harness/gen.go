package harness

import (
	"math/big"
	"time"

	"kmipverif/simrt"

	"github.com/ovh/kmip-go/ttlv"
)

// genValue draws a generic TTLV tree. budget bounds the number of nodes.
func genValue(g *simrt.Tape, depth int, budget *int) ttlv.Value {
	tag := 0x420001 + g.Draw(0x120)
	*budget--
	kind := g.Draw(10)
	if depth >= 3 || *budget <= 0 {
		if kind == 9 {
			kind = 0
		}
	}
	switch kind {
	case 0:
		return ttlv.Value{Tag: tag, Value: int32(g.Draw(1<<16) - 1<<15)}
	case 1:
		return ttlv.Value{Tag: tag, Value: int64(g.Draw(1<<30)) << uint(g.Draw(33))}
	case 2:
		b := new(big.Int).SetInt64(int64(g.Draw(1 << 30)))
		b.Lsh(b, uint(g.Draw(130)))
		if g.Draw(2) == 1 {
			b.Neg(b)
		}
		return ttlv.Value{Tag: tag, Value: b}
	case 3:
		return ttlv.Value{Tag: tag, Value: ttlv.Enum(1 + g.Draw(40))}
	case 4:
		return ttlv.Value{Tag: tag, Value: g.Draw(2) == 1}
	case 5:
		return ttlv.Value{Tag: tag, Value: genText(g)}
	case 6:
		return ttlv.Value{Tag: tag, Value: genBytes(g)}
	case 7:
		return ttlv.Value{Tag: tag, Value: time.Unix(int64(g.Draw(1<<31)), 0).UTC()}
	case 8:
		return ttlv.Value{Tag: tag, Value: time.Duration(g.Draw(1<<20)) * time.Second}
	default:
		n := g.Draw(5)
		st := ttlv.Struct{}
		for i := 0; i < n && *budget > 0; i++ {
			st = append(st, genValue(g, depth+1, budget))
		}
		return ttlv.Value{Tag: tag, Value: st}
	}
}

// genText covers every length residue mod 8.
func genText(g *simrt.Tape) string {
	n := g.Draw(18)
	b := make([]byte, n)
	for i := range b {
		b[i] = byte('a' + (i*7+n)%26)
	}
	return string(b)
}

func genBytes(g *simrt.Tape) []byte {
	var n int
	switch g.Draw(6) {
	case 0:
		n = 500 + g.Draw(40) // around the 512-byte initial receive buffer
	case 1:
		n = g.Draw(70000) // beyond it
		if g.Draw(4) == 0 {
			n = 70000 + g.Draw(200000) // several growth steps of any buffer-growing scheme
		}
	default:
		n = g.Draw(18)
	}
	b := make([]byte, n)
	for i := range b {
		b[i] = byte(i*31 + n)
	}
	return b
}

// genFrame draws one complete top-level TTLV item (always a structure, as KMIP messages are).
func genFrame(g *simrt.Tape, small bool) []byte {
	budget := 2 + g.Draw(12)
	n := 1 + g.Draw(4)
	switch g.Draw(12) {
	case 0:
		// a message whose value is empty: header only
		n = 0
	case 1:
		// a top-level item that is not a structure (the stream frames any TTLV item), empty ones included
		var v any
		switch g.Draw(5) {
		case 0:
			v = ""
		case 1:
			v = []byte{}
		case 2:
			v = genText(g)
		case 3:
			v = int32(g.Draw(1000))
		default:
			b := genBytes(g)
			v = b[:min(len(b), g.Draw(17))]
		}
		return ttlv.MarshalTTLV(ttlv.Value{Tag: 0x420078 + g.Draw(4), Value: v})
	}
	st := ttlv.Struct{}
	for i := 0; i < n; i++ {
		v := genValue(g, 1, &budget)
		if small {
			if b, ok := v.Value.([]byte); ok && len(b) > 24 {
				v.Value = b[:24]
			}
		}
		st = append(st, v)
	}
	top := ttlv.Value{Tag: 0x420078 + g.Draw(4), Value: st}
	return ttlv.MarshalTTLV(top)
}
