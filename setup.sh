#!/bin/sh
# Build the driver and warm the Go build cache (offline, from files on disk only).
set -e
export GOFLAGS=-mod=mod GOPROXY=off GOSUMDB=off GOTOOLCHAIN=local GOCACHE=/verif/.gocache
mkdir -p /verif/bin /verif/evidence /verif/replays
cd /verif/sim
cp /repo/go.sum . 2>/dev/null || true
go1.26.8 build -o /verif/bin/check ./cmd/check
go1.26.8 build -o /verif/bin/instrument ./instrument
cd /verif
./check selftest --fast
