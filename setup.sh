#!/bin/sh
# placeholder, replaced when the driver exists
exit 0
