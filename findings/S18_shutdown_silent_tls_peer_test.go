package kmipserver_test

import (
	"crypto/ecdsa"
	"crypto/elliptic"
	"crypto/rand"
	"crypto/tls"
	"crypto/x509"
	"crypto/x509/pkix"
	"math/big"
	"net"
	"testing"
	"time"

	"github.com/ovh/kmip-go/kmipserver"
)

func TestShutdownWithSilentTLSPeer(t *testing.T) {
	key, _ := ecdsa.GenerateKey(elliptic.P256(), rand.Reader)
	tpl := &x509.Certificate{SerialNumber: big.NewInt(1), Subject: pkix.Name{CommonName: "x"}, NotBefore: time.Now().Add(-time.Hour), NotAfter: time.Now().Add(time.Hour)}
	der, _ := x509.CreateCertificate(rand.Reader, tpl, tpl, &key.PublicKey, key)
	cfg := &tls.Config{Certificates: []tls.Certificate{{Certificate: [][]byte{der}, PrivateKey: key}}}
	ln, err := tls.Listen("tcp", "127.0.0.1:0", cfg)
	if err != nil {
		t.Fatal(err)
	}
	srv := kmipserver.NewServer(ln, kmipserver.NewBatchExecutor())
	go srv.Serve()
	c, err := net.Dial("tcp", ln.Addr().String())
	if err != nil {
		t.Fatal(err)
	}
	defer c.Close()
	time.Sleep(200 * time.Millisecond)
	done := make(chan struct{})
	t0 := time.Now()
	go func() { srv.Shutdown(); close(done) }()
	select {
	case <-done:
		t.Logf("Shutdown returned after %v", time.Since(t0))
	case <-time.After(10 * time.Second):
		t.Fatal("Shutdown has not returned 10 s after it was called: a peer that connected and never sent its ClientHello is still connected")
	}
}
