#!/usr/bin/env python3
"""Prepare one scratch worktree per claimed property for a wave of independent sub-agents.
usage: make_wave.py <wave-number>   -> /tmp/ag<N>-<id>/TASK.md (property text + every idea already used + rules).
Nothing from /verif other than the property text and one-line summaries of earlier seeded changes goes in."""
import json, glob, subprocess, sys
n = sys.argv[1]
props = {json.loads(l)['id']: json.loads(l) for l in open('/verif/properties.jsonl')}
claimed = [c['property_id'] for c in json.load(open('/verif/MANIFEST.json'))['checks']]
extra = {"C15": ["not clearing the placeholder when an item fails (not part of the statement; do not target)"]}
for p in claimed:
    wt = f"/tmp/ag{n}-{p}"
    subprocess.run(f"git -C /repo worktree add --detach {wt} HEAD -q", shell=True, check=True)
    used = [json.load(open(f)).get('change', '') for f in sorted(glob.glob(f'/verif/seeded/{p}-*/meta.json'))] + extra.get(p, [])
    r = props[p]
    task = f"""# Task

You are helping evaluate a verification effort for the Go library ovh/kmip-go (KMIP client/server with a TTLV codec).
Work ONLY inside this scratch git worktree ({wt}); never touch /repo or /verif and do not read /verif.

## The property to break

{json.dumps({k: r[k] for k in ('title', 'statement', 'quantifier', 'why_tests_cant', 'anchors')}, indent=1)}

## What to produce

ONE realistic, subtle change to the library's non-test source that BREAKS the property STATEMENT (the "statement"
field read literally - not merely a mechanism listed under anchors) while (1) still compiling (`go build ./...`) and
(2) still passing the whole existing test suite unedited (`go test -count=1 ./...`). It should look like something a
developer might plausibly write (a refactoring, an optimisation, a simplification, a feature addition with a slip, a
misguided fix), and it must need something SPECIFIC to manifest (a rare input or configuration, a particular
combination of optional protocol elements, a particular API entry point or option, a sequence of calls, an
interleaving, a fault or cancellation at a particular moment) - it must not break the common path.

The verification effort has already seen the following ideas; do NOT repeat or trivially vary them. Look for
dimensions these ideas did not touch: other API entry points and options, other optional protocol elements, boundary
values (empty, zero, maximum), unusual but legal configurations, other orders of calls, other moments for a fault:

""" + "\n".join(f" - {u}" for u in used) + f"""

## Deliverables (all inside {wt})

 - MUTANT.diff at the worktree root: `git diff` of the library change only (no test files), applicable with
   `git apply MUTANT.diff` to a clean checkout of the same commit.
 - one NEW Go test file (untracked *_test.go in the relevant package directory; do not edit existing tests) with a
   demonstration test that FAILS with the change applied and PASSES on the unchanged code. Use only the standard
   library, testify if the repo already depends on it, and the repo itself. If it needs an interleaving or a fault,
   orchestrate it (channels, net.Pipe, custom listener, custom dialer via kmipclient.WithDialerUnsafe, looping) and
   make it as reliable as you can; it must not rely on the race detector.
 - NOTES.md: one-line description of the change, what it needs to manifest, how the statement is violated.

## Rules

 - Offline environment; run go commands with `GOFLAGS=-mod=mod GOPROXY=off` (do NOT set GOSUMDB or GOTOOLCHAIN).
 - NEVER use `git stash` (shared between worktrees). To test without the change: `git apply -R MUTANT.diff`; re-apply
   with `git apply MUTANT.diff`. Do not commit anything.
 - Leave the worktree with the change APPLIED and MUTANT.diff, the demo test file and NOTES.md present.
 - Verify yourself: the suite passes with the change; the demo fails with it and passes without it. The full suite
   takes a few minutes; kmipclient/kmipserver tests can be flaky under CPU load (the machine is busy) - rerun once if
   a failure looks unrelated.
 - Report back briefly: the change, what it needs, the verification results.
"""
    open(f"{wt}/TASK.md", "w").write(task)
print("prepared", len(claimed), "worktrees")
