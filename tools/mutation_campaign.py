#!/usr/bin/env python3
"""Systematic gap finder: syntactic mutants (tools/mutgen) of the files the claimed properties are anchored in.
Stage 1 (parallel, scratch worktrees): does the mutant compile, and do the repository's own tests accept it?
Stage 2 (sequential, uses all cores): for every survivor the quick tier of the properties anchored in that file
is run against it (VERIF_REPO=<scratch worktree>; /repo is never touched).
Results: /verif/mutation_campaign/results.jsonl. Survivors that no check notices (status MISSED) are reviewed by
hand: most are equivalent mutants or outside every property; the rest are gaps to close."""
import json, os, re, shutil, subprocess, sys
from concurrent.futures import ThreadPoolExecutor
FILES = {
 "kmipserver/conn.go": ["C08", "C16"],
 "kmipserver/server.go": ["C16", "C08"],
 "kmipserver/router.go": ["C09", "C19", "C08", "C15", "C13"],
 "kmipserver/context.go": ["C15", "C09"],
 "kmipserver/errors.go": ["C09", "C15", "C08"],
 "kmipclient/conn.go": ["C10", "C11"],
 "kmipclient/client.go": ["C11", "C10", "C12", "C13", "C19"],
 "kmipclient/middlewares.go": ["C19"],
 "ttlv/io.go": ["C07", "C08", "C11"],
 # second pass
 "kmipserver/http.go": ["C08"],
 "kmipserver/middlewares.go": ["C19", "C08"],
 "kmipclient/sign_verify.go": ["C12"],
 "kmipclient/dialer_cluster.go": ["C13"],
 "responses.go": ["C12", "C09"],
 "requests.go": ["C12", "C13", "C09"],
}
ONLY_FUNCS = {"responses.go": {"Err"}, "requests.go": {"NewRequestMessage"}}
CLIENT_FUNCS = {"DialContext","CloneCtx","Clone","Close","reconnect","doRountrip","Roundtrip","negotiateVersion","Request","Batch","BatchOpt","ExecContext","Unwrap","WithKmipVersions","EnforceVersion","Version"}
OUT = "/verif/mutation_campaign"
NPAR = 5
env = dict(os.environ, GOFLAGS="-mod=mod", GOPROXY="off"); env.pop("GOSUMDB", None); env.pop("GOTOOLCHAIN", None)
def sh(cmd, cwd, timeout=1200, e=env):
    try:
        p = subprocess.run(cmd, shell=True, cwd=cwd, env=e, capture_output=True, text=True, errors="replace", timeout=timeout)
        return p.returncode, p.stdout + p.stderr
    except subprocess.TimeoutExpired:
        return 124, "timeout"
def stage1(job):
    k, f, src, desc, mid = job
    wt = f"/tmp/mutwt-{k}"
    sh("git checkout -- .", wt)
    shutil.copy(src, f"{wt}/{f}")
    rc, out = sh("go build ./...", wt, 300)
    if rc != 0: return mid, "uncompilable"
    rc, out = sh("go test -vet=off -count=1 -timeout 60s ./kmipserver ./kmipclient ./kmiptest ./ttlv", wt, 200)
    return mid, ("killed-by-suite" if rc != 0 else "survivor")
def main():
    only = sys.argv[1:]
    os.makedirs(OUT, exist_ok=True)
    res_path = f"{OUT}/results.jsonl"
    done = set()
    if os.path.exists(res_path):
        for l in open(res_path):
            done.add(json.loads(l)["id"])
    wts = list(range(NPAR)) + ["check"]
    for k in wts:
        sh(f"git -C /repo worktree remove --force /tmp/mutwt-{k}", "/")
        rc, out = sh(f"git -C /repo worktree add --detach /tmp/mutwt-{k} HEAD", "/"); assert rc == 0, out
    jobs = []
    for f, props in FILES.items():
        if only and f not in only: continue
        d = f"/dev/shm/mut/{f.replace('/', '_')}"
        shutil.rmtree(d, ignore_errors=True)
        rc, out = sh(f"/verif/bin/mutgen /repo/{f} {d}", "/"); assert rc == 0, out
        for name in sorted(x for x in os.listdir(d) if x.endswith(".go")):
            mid = f"{f}#{name[:-3]}"
            if mid in done: continue
            desc = open(f"{d}/{name[:-3]}.txt").read().strip()
            m = re.match(r"\S+ (\w+):", desc)
            fn = m.group(1) if m else ""
            if f == "kmipclient/client.go" and fn not in CLIENT_FUNCS: continue
            if f in ONLY_FUNCS and fn not in ONLY_FUNCS[f]: continue
            jobs.append((f, f"{d}/{name}", desc, mid))
    print(len(jobs), "mutants to process", flush=True)
    wtc = "/tmp/mutwt-check"
    for i in range(0, len(jobs), NPAR):
        batch = jobs[i:i+NPAR]
        with ThreadPoolExecutor(NPAR) as ex:
            results = list(ex.map(stage1, [(k,)+b for k, b in enumerate(batch)]))
        for (f, src, desc, mid), (_, status) in zip(batch, results):
            rec = {"id": mid, "desc": desc, "file": f, "status": status}
            if status == "survivor":
                sh("git checkout -- .", wtc); shutil.copy(src, f"{wtc}/{f}")
                rec["status"] = "MISSED"; rec["checks"] = {}
                for p in FILES[f]:
                    e2 = dict(os.environ, VERIF_REPO=wtc)
                    rc, out = sh(f"./check run {p} --tier quick", "/verif", 1500, e2)
                    rec["checks"][p] = {"exit": rc, "rules": sorted(set(re.findall(r"rule=(\S+)", out)))}
                    if rc == 1: rec["status"] = f"detected:{p}"; break
                    if rc == 2: rec["status"] = f"trouble:{p}"; rec["trouble"] = out[-600:]; break
            with open(res_path, "a") as fo: fo.write(json.dumps(rec) + "\n")
            print(rec["status"], "|", desc, flush=True)
    for k in wts:
        sh(f"git -C /repo worktree remove --force /tmp/mutwt-{k}", "/")
main()
