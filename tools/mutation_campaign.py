#!/usr/bin/env python3
"""Systematic gap finder: syntactic mutants (tools/mutgen) of the files the claimed properties are anchored in.
For every mutant that still compiles and that the repository's own tests accept, the quick tier of the
properties anchored in that file is run against it (VERIF_REPO=<scratch worktree>; /repo is never touched).
Results go to /verif/mutation_campaign/results.jsonl; survivors that no check notices are listed for review
(most are equivalent mutants or outside every property; the rest are gaps to close)."""
import json, os, re, shutil, subprocess, sys, time
FILES = {
 "kmipserver/conn.go": ["C08", "C16"],
 "kmipserver/server.go": ["C16", "C08"],
 "kmipserver/router.go": ["C09", "C19", "C08", "C15", "C13"],
 "kmipserver/context.go": ["C15", "C09"],
 "kmipserver/errors.go": ["C09", "C15", "C08"],
 "kmipclient/conn.go": ["C10", "C11"],
 "kmipclient/client.go": ["C11", "C10", "C12", "C13", "C19"],
 "kmipclient/middlewares.go": ["C19"],
 "ttlv/io.go": ["C07", "C08", "C11"],
}
CLIENT_FUNCS = {"DialContext","CloneCtx","Clone","Close","reconnect","doRountrip","Roundtrip","negotiateVersion","Request","Batch","BatchOpt","ExecContext","Unwrap","WithKmipVersions","EnforceVersion","Version"}
WT = "/tmp/mutwt"
OUT = "/verif/mutation_campaign"
env = dict(os.environ, GOFLAGS="-mod=mod", GOPROXY="off"); env.pop("GOSUMDB", None); env.pop("GOTOOLCHAIN", None)
def sh(cmd, cwd, timeout=1200, e=env):
    try:
        p = subprocess.run(cmd, shell=True, cwd=cwd, env=e, capture_output=True, text=True, errors="replace", timeout=timeout)
        return p.returncode, p.stdout + p.stderr
    except subprocess.TimeoutExpired:
        return 124, "timeout"
def main():
    only = sys.argv[1:] 
    os.makedirs(OUT, exist_ok=True)
    done = set()
    res_path = f"{OUT}/results.jsonl"
    if os.path.exists(res_path):
        for l in open(res_path):
            done.add(json.loads(l)["id"])
    sh(f"git -C /repo worktree remove --force {WT}", "/")
    rc, out = sh(f"git -C /repo worktree add --detach {WT} HEAD", "/"); assert rc == 0, out
    for f, props in FILES.items():
        if only and f not in only: continue
        d = f"/dev/shm/mut/{f.replace('/', '_')}"
        shutil.rmtree(d, ignore_errors=True)
        rc, out = sh(f"/verif/bin/mutgen /repo/{f} {d}", "/"); assert rc == 0, out
        for name in sorted(x for x in os.listdir(d) if x.endswith(".go")):
            mid = f"{f}#{name[:-3]}"
            if mid in done: continue
            desc = open(f"{d}/{name[:-3]}.txt").read().strip()
            fn = desc.split(":")[1].split()[1] if ":" in desc else ""
            m = re.match(r"\S+ (\w+):", desc)
            fn = m.group(1) if m else ""
            if f == "kmipclient/client.go" and fn not in CLIENT_FUNCS: continue
            rec = {"id": mid, "desc": desc, "file": f}
            sh("git checkout -- .", WT)
            shutil.copy(f"{d}/{name}", f"{WT}/{f}")
            t0 = time.time()
            rc, out = sh("go build ./... ", WT, 300)
            if rc != 0:
                rec["status"] = "uncompilable"
            else:
                rc, out = sh("go test -vet=off -count=1 -timeout 75s ./kmipserver ./kmipclient ./kmiptest ./ttlv", WT, 240)
                if rc != 0:
                    rec["status"] = "killed-by-suite"
                else:
                    rec["status"] = "MISSED"; rec["checks"] = {}
                    for p in props:
                        e2 = dict(os.environ, VERIF_REPO=WT)
                        rc, out = sh(f"./check run {p} --tier quick", "/verif", 1500, e2)
                        rules = sorted(set(re.findall(r"rule=(\S+)", out)))
                        rec["checks"][p] = {"exit": rc, "rules": rules}
                        if rc == 1:
                            rec["status"] = f"detected:{p}"; break
                        if rc == 2:
                            rec["status"] = f"trouble:{p}"; rec["trouble"] = out[-600:]; break
            rec["wall_s"] = round(time.time() - t0, 1)
            with open(res_path, "a") as fo: fo.write(json.dumps(rec) + "\n")
            print(rec["status"], "|", desc, flush=True)
    sh(f"git -C /repo worktree remove --force {WT}", "/")
main()
