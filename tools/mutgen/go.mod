module mutgen

go 1.26.8
