// Command mutgen enumerates simple syntactic mutants of a Go source file and writes each as a
// full replacement file (<out>/<n>.go) plus a one-line description (<out>/<n>.txt).
//
//	mutgen <file.go> <outdir>
//
// Operators: statement deletion (expression, assignment, inc/dec, defer, go, send statements and
// whole select arms), condition negation (if), relational operator replacement, && / || swap,
// `return err`-style early returns removed (if err != nil { return ... } bodies emptied is NOT done:
// too noisy). Used by tools/mutation_campaign.py to look for changes that the repository's tests
// accept and none of the checks notices.
package main

import (
	"bytes"
	"fmt"
	"go/ast"
	"go/format"
	"go/parser"
	"go/printer"
	"go/token"
	"os"
	"path/filepath"
	"strings"
)

type mutant struct {
	desc  string
	apply func() func() // applies the mutation, returns the undo
}

func main() {
	if len(os.Args) != 3 {
		fmt.Fprintln(os.Stderr, "usage: mutgen <file.go> <outdir>")
		os.Exit(2)
	}
	path, out := os.Args[1], os.Args[2]
	fset := token.NewFileSet()
	file, err := parser.ParseFile(fset, path, nil, parser.ParseComments)
	if err != nil {
		panic(err)
	}
	_ = os.MkdirAll(out, 0o755)
	var muts []mutant
	pos := func(n ast.Node) string { p := fset.Position(n.Pos()); return fmt.Sprintf("%s:%d", filepath.Base(path), p.Line) }
	src := func(n ast.Node) string {
		var b bytes.Buffer
		_ = printer.Fprint(&b, fset, n)
		s := strings.Join(strings.Fields(b.String()), " ")
		if len(s) > 90 {
			s = s[:90] + "…"
		}
		return s
	}
	curFn := ""
	var walkList func(list *[]ast.Stmt)
	walkList = func(list *[]ast.Stmt) {
		for i := range *list {
			i := i
			st := (*list)[i]
			switch x := st.(type) {
			case *ast.ExprStmt, *ast.IncDecStmt, *ast.DeferStmt, *ast.GoStmt, *ast.SendStmt:
				if call, ok := st.(*ast.ExprStmt); ok {
					// skip pure logging
					if s := src(call); strings.Contains(s, "logger.") || strings.HasPrefix(s, "slog.") || strings.Contains(s, "fmt.Fprint") {
						continue
					}
				}
				if d, ok := st.(*ast.DeferStmt); ok && strings.Contains(src(d), "logger.") {
					continue
				}
				muts = append(muts, mutant{desc: fmt.Sprintf("%s %s: delete statement `%s`", pos(st), curFn, src(st)), apply: func() func() {
					old := (*list)[i]
					(*list)[i] = &ast.EmptyStmt{Semicolon: old.Pos(), Implicit: false}
					return func() { (*list)[i] = old }
				}})
			case *ast.AssignStmt:
				if x.Tok == token.ASSIGN {
					muts = append(muts, mutant{desc: fmt.Sprintf("%s %s: delete assignment `%s`", pos(st), curFn, src(st)), apply: func() func() {
						old := (*list)[i]
						(*list)[i] = &ast.EmptyStmt{Semicolon: old.Pos()}
						return func() { (*list)[i] = old }
					}})
				}
			case *ast.IfStmt:
				muts = append(muts, mutant{desc: fmt.Sprintf("%s %s: negate condition `%s`", pos(st), curFn, src(x.Cond)), apply: func() func() {
					old := x.Cond
					x.Cond = &ast.UnaryExpr{Op: token.NOT, X: &ast.ParenExpr{X: old}}
					return func() { x.Cond = old }
				}})
			case *ast.ReturnStmt:
			}
		}
	}
	ast.Inspect(file, func(n ast.Node) bool {
		switch x := n.(type) {
		case *ast.FuncDecl:
			curFn = x.Name.Name
		case *ast.BlockStmt:
			walkList(&x.List)
		case *ast.CaseClause:
			walkList(&x.Body)
		case *ast.CommClause:
			walkList(&x.Body)
		case *ast.SelectStmt:
			// delete one arm of a select with three or more arms, or a non-default arm of a two-arm select with a default
			arms := x.Body.List
			if len(arms) >= 2 {
				for i := range arms {
					i := i
					cc := arms[i].(*ast.CommClause)
					if cc.Comm == nil {
						continue
					}
					muts = append(muts, mutant{desc: fmt.Sprintf("%s %s: delete select arm `%s`", pos(cc), curFn, src(cc.Comm)), apply: func() func() {
						old := x.Body.List
						nl := append(append([]ast.Stmt{}, old[:i]...), old[i+1:]...)
						x.Body.List = nl
						return func() { x.Body.List = old }
					}})
				}
			}
		case *ast.BinaryExpr:
			repl := map[token.Token][]token.Token{
				token.LSS: {token.LEQ}, token.LEQ: {token.LSS}, token.GTR: {token.GEQ}, token.GEQ: {token.GTR},
				token.EQL: {token.NEQ}, token.NEQ: {token.EQL}, token.LAND: {token.LOR}, token.LOR: {token.LAND},
			}
			for _, to := range repl[x.Op] {
				to := to
				muts = append(muts, mutant{desc: fmt.Sprintf("%s %s: `%s` with %s instead of %s", pos(x), curFn, src(x), to, x.Op), apply: func() func() {
					old := x.Op
					x.Op = to
					return func() { x.Op = old }
				}})
			}
		}
		return true
	})
	n := 0
	for _, m := range muts {
		undo := m.apply()
		var buf bytes.Buffer
		err := format.Node(&buf, fset, file)
		undo()
		if err != nil {
			continue
		}
		n++
		_ = os.WriteFile(filepath.Join(out, fmt.Sprintf("%04d.go", n)), buf.Bytes(), 0o644)
		_ = os.WriteFile(filepath.Join(out, fmt.Sprintf("%04d.txt", n)), []byte(m.desc+"\n"), 0o644)
	}
	fmt.Println(n, "mutants")
}
