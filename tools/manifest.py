#!/usr/bin/env python3
"""Regenerates /verif/MANIFEST.json from the tables below and validates it."""
import json, subprocess, sys
NA = {
"C01":"pure function of the input message: one synchronous MarshalTTLV/UnmarshalTTLV call with no reader, goroutine, clock, peer or fault to place; only input generation could decide it, which is not deterministic simulation",
"C02":"pure function of the byte string handed to Unmarshal*; the network consequence (a decoder panic kills the server) is exercised under C08, but panic-freedom over all byte strings is an input-space claim with no schedule or fault dimension",
"C03":"pure function of a TTLV tree; needs an independent parser as oracle over generated inputs, nothing to schedule or fault",
"C04":"pure function of (message, encoding); differential input testing, no nondeterminism, I/O or multi-party behaviour involved",
"C05":"pure function of (message, protocol version); table-driven input enumeration, no nondeterminism involved",
"C06":"pure function of the decoded bytes and static init-time registries; no schedule, clock, fault or interleaving",
"C14":"pure function of (key, format, version, encoding); 'transport' in the statement is encode+decode, not a connection",
"C17":"exhaustive comparison of finite init-time tables; no execution to schedule or fault",
"C18":"pure function of the accepted input; needs input mutation/fuzzing, no schedule or fault dimension"}
TRUST = "Go 1.26.8 runtime and testing/synctest; the check-time rewriter (validated by running the repository's own tests against the overlay in pass-through mode and by cross-process determinism runs); simnet as a model of net.Conn/net.Listener (fault list DESIGN §2.5; no TLS, no kernel buffers); sampling, not proof"
CHECKS = {
"C07": ("stream", "exploration", "Seeded deterministic simulation of the real ttlv.Stream over a simulated transport: message sequences x read segmentations (1-byte, random, coalesced across message boundaries) x data+EOF x truncation offsets x oversize headers, with live sender/receiver tasks under the baton scheduler; plus a complete floor over every truncation offset of small streams under both extreme segmentations. Oracle: messages equal and in order, consumed-byte offset equals each message's end, truncated streams yield errors, oversize headers rejected with <= 8 bytes consumed.", "DESIGN.md §3 C07",
        "deterministic simulation: seeded search over read segmentations/truncations of a simulated transport + enumerated truncation floor"),
"C10": ("client", "exploration", "Seeded deterministic simulation of one real kmipclient.Client shared by 1-5 caller tasks against a scripted echo server (unique token per request item) with server delays/closes, chunked reads, timeouts on the fake clock and canceller tasks that make cancellation land at any yield of the instrumented client; plus two floors: a context that becomes cancelled at its k-th observation for every k (places a cancellation at every point where the client can notice one) and a single-preemption sweep of fixed two-caller workloads. Oracle: every call that returns a nil error returns exactly the tokens it sent.", "DESIGN.md §3 C10",
        "deterministic simulation: seeded search over schedules/cancellation instants/server delays + enumerated ctx-observation and single-preemption floors"),
"C11": ("client", "exploration", "Seeded deterministic simulation of the real client (dial, version negotiation, calls, retry/reconnect, Close) with eof/reset/closed/epipe/short-write/stall faults injected at chosen client-side I/O operation indexes, failing dials and a server that closes or resets around its reply, under concurrent callers and preemptions; plus a complete single-fault floor (every I/O op index 1..12 x 6 kinds x 5 follow-up action lists x negotiation on/off, and server close/reset after the k-th reply seen as EOF or data+EOF) and a single-preemption sweep. Oracles: every call returns; nil-error results carry the caller's own tokens; no panic; recovery in a fault-free suffix (only the first call may fail); at most 4 transmissions per request; calls started after Close returned fail; no client goroutine alive after Close.", "DESIGN.md §3 C11",
        "deterministic simulation: seeded fault-sequence/schedule search + enumerated single-fault floor over client I/O operation indexes"),
"C12": ("client", "exploration", "Seeded deterministic simulation in which a scripted byzantine server (fault kind peer-substitute) answers one representative call of each of the 27 fluent-API operations (plus raw Request, batches and the discovery exchange at connect time) with a response falsified by 0-3 substitutions: header count, item count, item operation (other/unknown/absent), status, reason (named/unnamed), message, payload (other operation's/opaque/absent), swapped ids; plus a complete floor of 22 single substitutions x every operation. Oracle: the real client returns either a non-nil payload of the operation's own response type or an error; never panics; a failed item surfaces as an error carrying status, reason and message; a conformant response is accepted. Degenerate schedule dimension (one caller), stated as such.", "DESIGN.md §3 C12",
        "deterministic simulation with a byzantine peer: seeded response substitutions + enumerated single-substitution floor"),
"C13": ("client", "exploration", "The complete configuration grid (31 client sets x 32 server sets x 6 scripted-server behaviours, the real kmipserver with each set, and enforced versions: 7564 dials) is swept inside the simulator in every run with the real client negotiation, followed by one request on the original and on a cloned client; the seeded part adds configuration order, chunked/byte-wise reads, stalls and preemptions. Oracle: reference model of the statement (highest common version or failure; 1.0 fallback only if configured; adopted version in the client set; no discovery when enforced; every later request header carries the adopted version).", "DESIGN.md §3 C13",
        "deterministic simulation: exhaustive configuration grid swept inside the simulator + seeded transport/schedule variation"),
"C09": ("server", "exploration", "Seeded deterministic simulation of the real BatchExecutor: 1-4 concurrent request batches (0-12 items, 13 scripted item outcomes incl. five panic kinds, unrouted operation, critical extension; option unset/Continue/Stop/Undo; supported/unsupported version; count +-1; ids on/off) executed directly on one shared executor or end to end (real client -> simnet -> real server), handlers yielding to the scheduler; plus a complete floor over every batch of length <= 3 (quick) / <= 5 (thorough) x 8 outcomes x 4 options x ids x version x count. Oracle: reference model of the statement (one item per request item in order echoing operation and id, count and version, handler trace in order at most once, Stop/Continue semantics, rejection without handler execution).", "DESIGN.md §3 C09",
        "deterministic simulation: reference-model comparison over seeded concurrent batches + exhaustive short-batch floor"),
}
ENG = {"stream":"sim/harness/stream.go","server":"sim/harness/server*.go","client":"sim/harness/client*.go","codec":"sim/harness/codec.go"}
def main():
    checks=[]
    for pid,(eng,cat,text,ref,tech) in sorted(CHECKS.items()):
        checks.append({"property_id":pid,"quick_cmd":f"./check run {pid} --tier quick","thorough_cmd":f"./check run {pid} --tier thorough",
          "evidence_file":f"/verif/evidence/{pid}.json","replay_cmd_template":"./check replay {path}","engine":eng,
          "level_claimed":{"category":cat,"text":text,"design_ref":ref},"level_note":TRUST,"technique":tech})
    engines=[]
    for e,path in ENG.items():
        serves=[p for p,(eng,*_) in sorted(CHECKS.items()) if eng==e]
        if serves: engines.append({"name":e,"path":path,"serves_properties":serves,"kind_free_text":"deterministic simulation engine (baton scheduler in a synctest bubble over overlay-instrumented kmip-go)"})
    m={"version":1,"setup_cmd":"cd /verif && ./setup.sh",
      "hooks":{"guard":"kmipverif-overlay (no source hooks in /repo; instrumentation is generated from the working tree at check time into a go build -overlay)",
        "enable":"./check builds the harness with `go1.26.8 test -c -overlay <generated overlay.json>`; /repo is never modified by a check",
        "baseline_off_cmd":"cd /repo && go test -mod=mod -vet=off -count=1 -timeout 25m ./...","source_commits":[],"add_only":True},
      "engines":engines,"checks":checks,
      "not_applicable":[{"property_id":k,"reason":v} for k,v in sorted(NA.items()) if k not in CHECKS],
      "notes":"Deterministic simulation with fault injection; see DESIGN.md. Exit 0 = held (possibly with KNOWN-FINDING lines), 1 = VIOLATION with replay file, 2 = build/watchdog/determinism trouble. Properties not yet listed under checks or not_applicable are still being built."}
    json.dump(m,open("/verif/MANIFEST.json","w"),indent=1)
    import jsonschema
    jsonschema.validate(m,json.load(open('/root/.vp/MANIFEST.schema.json')))
    print("MANIFEST ok:",[c["property_id"] for c in checks])
main()
