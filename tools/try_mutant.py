#!/usr/bin/env python3
"""Independent confirmation of a seeded change produced by a sub-agent.
usage: try_mutant.py <agent-worktree> <property> <seeded-id> [--keep]
Steps (all in a fresh scratch worktree of /repo, never in /repo):
 1. apply MUTANT.diff                      -> must apply
 2. run the repository's test suite        -> must pass
 3. add the demo test file(s), run them    -> must fail
 4. revert the change, run the demo        -> must pass
 5. run the property's quick check against the mutated worktree (VERIF_REPO) -> exit 1 expected
Writes /verif/seeded/<seeded-id>/{patch.diff,demo files,meta.json} when 1-4 hold."""
import json, os, shutil, subprocess, sys, time
wt, prop, sid = sys.argv[1], sys.argv[2], sys.argv[3]
env = dict(os.environ, GOFLAGS="-mod=mod", GOPROXY="off")
env.pop("GOSUMDB", None); env.pop("GOTOOLCHAIN", None)
def sh(cmd, cwd, timeout=900, e=env):
    p = subprocess.run(cmd, shell=True, cwd=cwd, env=e, capture_output=True, text=True, errors="replace", timeout=timeout)
    return p.returncode, (p.stdout + p.stderr)
vm = f"/tmp/vm-{sid}"
sh(f"git -C /repo worktree remove --force {vm}", "/")
rc, out = sh(f"git -C /repo worktree add --detach {vm} HEAD", "/")
assert rc == 0, out
res = {"property": prop, "id": sid, "source_worktree": wt}
diff = open(f"{wt}/MUTANT.diff").read()
open(f"{vm}/MUTANT.diff", "w").write(diff)
rc, out = sh("git apply MUTANT.diff", vm); res["applies"] = rc == 0
if rc != 0: print(out); print(json.dumps(res)); sys.exit(1)
# demo files = untracked *_test.go / *.go files in the agent's worktree
rc, out = sh("git ls-files --others --exclude-standard", wt)
demos = [f for f in out.split() if f.endswith(".go")]
res["demo_files"] = demos
rc, out = sh("go build ./... && go test -vet=off -count=1 -timeout 25m ./...", vm); res["suite_passes_with_change"] = rc == 0
if rc != 0: print(out[-3000:])
for f in demos:
    os.makedirs(os.path.dirname(f"{vm}/{f}") or vm, exist_ok=True); shutil.copy(f"{wt}/{f}", f"{vm}/{f}")
pkgs = sorted({"./" + (os.path.dirname(f) or ".") for f in demos})
# run only the tests defined in the demo files
import re
names = []
for f in demos:
    names += re.findall(r"^func (Test\w+)\(", open(f"{wt}/{f}").read(), re.M)
runre = "^(" + "|".join(names) + ")$"
demo_cmd = f"go test -vet=off -count=1 -timeout 5m -run '{runre}' " + " ".join(pkgs)
res["demo_cmd"] = demo_cmd
rc, out = sh(demo_cmd, vm); res["demo_fails_with_change"] = rc != 0; demo_out = out[-1500:]
rc, out2 = sh("git apply -R MUTANT.diff", vm); assert rc == 0, out2
rc, out2 = sh(demo_cmd, vm); res["demo_passes_without_change"] = rc == 0
if rc != 0: print("DEMO FAILS ON UNCHANGED CODE:\n", out2[-2000:])
rc, out2 = sh("git apply MUTANT.diff", vm); assert rc == 0
for f in demos: os.remove(f"{vm}/{f}")
ok = all(res[k] for k in ("applies", "suite_passes_with_change", "demo_fails_with_change", "demo_passes_without_change"))
res["confirmed"] = ok
if ok:
    t0 = time.time()
    e2 = dict(os.environ, VERIF_REPO=vm)
    rc, out = sh(f"./check run {prop} --tier quick", "/verif", 1800, e2)
    res["check_exit"] = rc
    res["check_rules"] = sorted(set(re.findall(r"rule=(\S+)", out)))
    res["check_known"] = [l for l in out.splitlines() if l.startswith("KNOWN-FINDING")]
    res["check_wall_s"] = round(time.time() - t0, 1)
    res["check_tail"] = out.splitlines()[-1] if out.splitlines() else ""
    if rc == 2: print(out[-2500:])
    d = f"/verif/seeded/{sid}"; os.makedirs(d, exist_ok=True)
    open(f"{d}/patch.diff", "w").write(diff)
    for f in demos: shutil.copy(f"{wt}/{f}", f"{d}/{os.path.basename(f)}")
    meta = {"property": prop, "demo_files": demos, "demo_cmd": demo_cmd + "   (after copying the demo file(s) to the listed paths in a worktree with patch.diff applied)",
            "confirmed": {k: res[k] for k in ("applies", "suite_passes_with_change", "demo_fails_with_change", "demo_passes_without_change")},
            "what_i_ran": ["git worktree add --detach /tmp/vm-<id> HEAD; git apply patch.diff", "go build ./... && go test -vet=off -count=1 ./...   (suite passes with the change)", demo_cmd + "   (fails with the change)", "git apply -R patch.diff; same demo command (passes)", f"VERIF_REPO=/tmp/vm-<id> ./check run {prop} --tier quick"],
            "quick_check": {"exit": rc, "rules": res["check_rules"], "wall_s": res["check_wall_s"]}}
    if os.path.exists(f"{d}/meta.json"):
        old = json.load(open(f"{d}/meta.json")); meta = {**old, **meta}
    json.dump(meta, open(f"{d}/meta.json", "w"), indent=1)
print(json.dumps(res, indent=1)); print("demo output (with change):\n" + demo_out[-800:])
if "--keep" not in sys.argv:
    sh(f"git -C /repo worktree remove --force {vm}", "/")
